//! C18: previews predict exactly what encapsulation will produce.
//! Lattice tier: lengths 0..=70000 x 0..=70000, every label / protocol type / context.
use crate::models::*;
use crate::spec::*;
use dvb_gse_rust::gse_encap::{
    encap_frag_preview, encap_preview, ContextFrag, EncapError, EncapMetadata, EncapStatus, Encapsulator,
};
use dvb_gse_rust::label::Label;

#[kani::proof]
#[kani::unwind(8)]
pub fn preview_vs_encap_lattice() {
    let pdu_len = any_len(BIG);
    let buf_len = any_len(BIG);
    let pdu_v = zeros(pdu_len);
    let mut buf_v = zeros(buf_len);
    let label = any_label();
    let ptype: u16 = kani::any();
    let fid: u8 = kani::any();
    let (act, max, cur, last) = any_enc_state();
    // "when no re-use substitution applies"
    kani::assume(!act || !opt_label_eq(&last, &Some(label)));
    let mut enc = Encapsulator::verif_from_parts(ConstCrc(kani::any()), act, max, cur, last);
    let md = EncapMetadata::new(ptype, label);
    let pv = encap_preview(&pdu_v[..], md, &buf_v[..]);
    let r = enc.encap(&pdu_v[..], fid, md, &mut buf_v[..]);
    match (pv, r) {
        (Ok(p), Ok(EncapStatus::CompletedPkt(n))) => {
            assert!(kind_of(&p.pkt_type()) == Kind::Complete, "C18.encap_kind_complete");
            assert!(p.pkt_len() == n, "C18.encap_len_complete");
            kani::cover!(true, "ok_complete");
            kani::cover!(ptype < 0x100, "ok_complete_low_ptype");
        }
        (Ok(p), Ok(EncapStatus::FragmentedPkt(n, _))) => {
            assert!(kind_of(&p.pkt_type()) == Kind::First, "C18.encap_kind_first");
            assert!(p.pkt_len() == n, "C18.encap_len_first");
            kani::cover!(true, "ok_first");
            kani::cover!(buf_len > 4097, "ok_first_big_buffer");
        }
        (Err(e1), Err(e2)) => {
            assert!(e1 == e2, "C18.encap_same_error");
            kani::cover!(e2 == EncapError::ErrorSizeBuffer, "err_size");
            kani::cover!(e2 == EncapError::ErrorPduLength, "err_pdu_len");
            kani::cover!(e2 == EncapError::ErrorProtocolType, "err_ptype");
            kani::cover!(e2 == EncapError::ErrorInvalidLabel, "err_label");
        }
        (Ok(_), Err(_)) => assert!(false, "C18.encap_preview_ok_but_encap_err"),
        (Err(_), Ok(_)) => assert!(false, "C18.encap_preview_err_but_encap_ok"),
    }
    core::mem::forget(enc);
}

#[kani::proof]
pub fn preview_vs_encap_frag_lattice() {
    let pdu_len = any_len(BIG);
    let buf_len = any_len(BIG);
    let pdu_v = zeros(pdu_len);
    let mut buf_v = zeros(buf_len);
    let ctx = any_ctx();
    let enc = Encapsulator::new(ConstCrc(0));
    let pv = encap_frag_preview(&pdu_v[..], &ctx, &buf_v[..]);
    let r = enc.encap_frag(&pdu_v[..], &ctx, &mut buf_v[..]);
    match (pv, r) {
        (Ok(p), Ok(EncapStatus::CompletedPkt(n))) => {
            assert!(kind_of(&p.pkt_type()) == Kind::End, "C18.frag_kind_end");
            assert!(p.pkt_len() == n, "C18.frag_len_end");
            assert!(p.pdu_len() == pdu_len - ctx.len_pdu_frag() as usize, "C18.frag_payload_end");
            kani::cover!(true, "ok_end");
        }
        (Ok(p), Ok(EncapStatus::FragmentedPkt(n, c2))) => {
            assert!(kind_of(&p.pkt_type()) == Kind::Intermediate, "C18.frag_kind_intermediate");
            assert!(p.pkt_len() == n, "C18.frag_len_intermediate");
            // payload length = context advance (no wrap for PDUs that fit the 16-bit total length)
            if pdu_len <= 65535 {
                assert!(
                    p.pdu_len() == (c2.len_pdu_frag() as usize) - (ctx.len_pdu_frag() as usize),
                    "C18.frag_payload_intermediate"
                );
            }
            kani::cover!(true, "ok_intermediate");
            kani::cover!(buf_len > 4097, "ok_intermediate_big_buffer");
        }
        (Err(e1), Err(e2)) => {
            assert!(e1 == e2, "C18.frag_same_error");
            kani::cover!(e2 == EncapError::ErrorSizeBuffer, "err_size");
            kani::cover!(e2 == EncapError::ErrorPduLength, "err_ctx_beyond_pdu");
        }
        (Ok(_), Err(_)) => assert!(false, "C18.frag_preview_ok_but_encap_err"),
        (Err(_), Ok(_)) => assert!(false, "C18.frag_preview_err_but_encap_ok"),
    }
}

#[cfg(feature = "twins")]
#[kani::proof]
#[kani::unwind(8)]
pub fn twin_preview_vs_encap() {
    let pdu_len = any_len(BIG);
    let buf_len = any_len(BIG);
    let pdu_v = zeros(pdu_len);
    let mut buf_v = zeros(buf_len);
    let label = any_label();
    let ptype: u16 = kani::any();
    kani::assume(ptype >= 0x600);
    kani::assume(pdu_len <= 4000);
    let mut enc = Encapsulator::new(ConstCrc(0));
    let md = EncapMetadata::new(ptype, label);
    let pv = encap_preview(&pdu_v[..], md, &buf_v[..]);
    let r = enc.encap(&pdu_v[..], 0, md, &mut buf_v[..]);
    if pv.is_ok() && r.is_ok() {
        assert!(false, "TWIN.reachable");
    }
}

//! C09: encapsulation calls are total and failure-atomic.
use crate::models::*;
use crate::spec::*;
use dvb_gse_rust::gse_encap::{
    encap_frag_preview, encap_preview, ContextFrag, EncapError, EncapMetadata, EncapStatus, Encapsulator,
};
use dvb_gse_rust::label::Label;

/// encap, lattice tier, arbitrary sender state: no panic (Kani's implicit checks on every
/// crate function reached), state unchanged on Err, mandatory rejections.
#[kani::proof]
#[kani::unwind(8)]
pub fn encap_lattice() {
    let pdu_len = any_len(BIG);
    let buf_len = any_len(BIG);
    let pdu_v = zeros(pdu_len);
    let mut buf_v = zeros(buf_len);
    let label = any_label();
    let ptype: u16 = kani::any();
    let fid: u8 = kani::any();
    let mut enc = any_encapsulator();
    let before = enc.verif_parts();
    let md = EncapMetadata::new(ptype, label);
    let r = enc.encap(&pdu_v[..], fid, md, &mut buf_v[..]);
    let after = enc.verif_parts();
    match &r {
        Err(e) => {
            assert!(state_eq(&before, &after), "C09.encap_err_state_unchanged");
            kani::cover!(*e == EncapError::ErrorSizeBuffer && before.0, "err_size_reuse_on");
            kani::cover!(*e == EncapError::ErrorPduLength, "err_pdu_len");
        }
        Ok(_) => {
            assert!(!is_zero6(&label), "C09.encap_zero_label_rejected");
            assert!(!(ptype >= 0x100 && ptype <= 0x5FF), "C09.encap_bad_ptype_rejected");
            // written label is at most the passed label
            assert!(pdu_len + 2 <= 65535, "C09.encap_pdu_over_total_length_rejected");
            kani::cover!(ptype < 0x100, "ok_low_ptype");
            kani::cover!(pdu_len > 4095 && buf_len > 4097, "ok_big");
        }
    }
    if is_zero6(&label) {
        assert!(r.is_err(), "C09.encap_zero_label_error");
    }
    core::mem::forget(enc);
}

/// The PDU-length rejection, exact: total length = PDU + 2 + label as written must fit 16 bits.
#[kani::proof]
#[kani::unwind(8)]
pub fn encap_total_length_limit() {
    let pdu_len = any_len(BIG);
    let buf_len = any_len(BIG);
    let pdu_v = zeros(pdu_len);
    let mut buf_v = zeros(buf_len);
    let label = any_label();
    let ptype: u16 = kani::any();
    // re-use disabled: the label as written is the label passed
    let mut enc = Encapsulator::verif_from_parts(ConstCrc(0), false, 0, 0, any_label_memory());
    let md = EncapMetadata::new(ptype, label);
    let r = enc.encap(&pdu_v[..], 3, md, &mut buf_v[..]);
    if pdu_len + 2 + label.len() > 65535 {
        assert!(r.is_err(), "C09.encap_pdu_over_total_length_rejected_exact");
        kani::cover!(buf_len == BIG, "over_limit_big_buffer");
    }
    core::mem::forget(enc);
}

/// encap_frag and both previews, lattice tier: no panic, mandatory rejection.
#[kani::proof]
#[kani::unwind(8)]
pub fn frag_and_previews_lattice() {
    let pdu_len = any_len(BIG);
    let buf_len = any_len(BIG);
    let pdu_v = zeros(pdu_len);
    let mut buf_v = zeros(buf_len);
    let ctx = any_ctx();
    let enc = any_encapsulator();
    let before = enc.verif_parts();
    let r = enc.encap_frag(&pdu_v[..], &ctx, &mut buf_v[..]);
    assert!(state_eq(&before, &enc.verif_parts()), "C09.frag_state_unchanged");
    if ctx.len_pdu_frag() as usize > pdu_len {
        assert!(r.is_err(), "C09.frag_ctx_beyond_pdu_rejected");
        kani::cover!(true, "ctx_beyond");
    }
    kani::cover!(r.is_ok() && buf_len > 4097 && pdu_len > 4095, "ok_big");
    let _ = encap_frag_preview(&pdu_v[..], &ctx, &buf_v[..]);
    let md = EncapMetadata::new(kani::any(), any_label());
    let _ = encap_preview(&pdu_v[..], md, &buf_v[..]);
    core::mem::forget(enc);
}

/// Byte tier: on Err the output buffer is byte-for-byte unchanged (symbolic pre-filled
/// buffer, symbolic index); encap.
#[kani::proof]
#[kani::unwind(8)]
pub fn encap_err_buffer_untouched() {
    const NP: usize = 16;
    const NB: usize = 32;
    let pdu_arr: [u8; NP] = kani::any();
    let mut buf_arr: [u8; NB] = kani::any();
    let orig = buf_arr;
    let pdu_len = any_len(NP);
    let buf_len = any_len(NB);
    let md = EncapMetadata::new(kani::any(), any_label());
    let mut enc = any_encapsulator();
    let r = enc.encap(&pdu_arr[..pdu_len], kani::any(), md, &mut buf_arr[..buf_len]);
    let i = any_len(NB - 1);
    if r.is_err() {
        assert!(buf_arr[i] == orig[i], "C09.encap_err_buffer_unchanged");
        kani::cover!(i < buf_len, "index_inside_buffer");
    }
    core::mem::forget(enc);
}

#[kani::proof]
pub fn frag_err_buffer_untouched() {
    const NP: usize = 16;
    const NB: usize = 32;
    let pdu_arr: [u8; NP] = kani::any();
    let mut buf_arr: [u8; NB] = kani::any();
    let orig = buf_arr;
    let pdu_len = any_len(NP);
    let buf_len = any_len(NB);
    let ctx = any_ctx();
    let enc = Encapsulator::new(ConstCrc(0));
    let r = enc.encap_frag(&pdu_arr[..pdu_len], &ctx, &mut buf_arr[..buf_len]);
    let i = any_len(NB - 1);
    if r.is_err() {
        assert!(buf_arr[i] == orig[i], "C09.frag_err_buffer_unchanged");
        kani::cover!(i < buf_len, "index_inside_buffer");
    }
}

/// encap_ext with ONE mandatory extension whose data length is symbolic up to 5000 bytes
/// (so that the extension alone can exceed a GSE packet), lattice lengths for PDU and
/// buffer: no panic, and on Err the sender state is unchanged (every error return after the
/// re-use bookkeeping, including "the extensions alone do not fit").
#[kani::proof]
#[kani::unwind(8)]
pub fn encap_ext_big_mandatory_lattice() {
    let pdu_len = any_len(BIG);
    let buf_len = any_len(BIG);
    let ext_len = any_len(5000);
    let pdu_v = zeros(pdu_len);
    let mut buf_v = zeros(buf_len);
    let ext_v = zeros(ext_len);
    let id: u8 = kani::any();
    let e = match dvb_gse_rust::header_extension::Extension::new(id as u16, &ext_v[..]) {
        Ok(e) => e,
        Err(_) => {
            assert!(false, "C13.extension_new_accepts_valid");
            return;
        }
    };
    let label = any_label();
    let ptype: u16 = kani::any();
    let mut enc = any_encapsulator();
    let before = enc.verif_parts();
    let md = EncapMetadata::new(ptype, label);
    let exts = core::mem::ManuallyDrop::new(vec![e]);
    let r = enc.encap_ext(&pdu_v[..], kani::any(), md, &mut buf_v[..], core::mem::ManuallyDrop::into_inner(exts));
    let after = enc.verif_parts();
    match &r {
        Err(e) => {
            assert!(state_eq(&before, &after), "C09.encap_ext_err_state_unchanged");
            kani::cover!(*e == EncapError::ErrorPduLength && ext_len > 4090 && pdu_len < 100 && before.0, "extensions_alone_do_not_fit");
            kani::cover!(*e == EncapError::ErrorSizeBuffer && before.0, "err_size");
        }
        Ok(EncapStatus::CompletedPkt(n)) => {
            assert!(*n as usize <= buf_len && *n as usize <= 4097, "C06.lattice_complete_len_bounds");
            // the 12-bit GSE length written in the header is the returned length minus 2
            let field = (((buf_v[0] as usize) << 8) | buf_v[1] as usize) & 0x0FFF;
            assert!(field + 2 == *n as usize, "C13.reported_len_is_on_wire_len");
            assert!(buf_v[0] & 0xC0 == 0xC0, "C13.start_end_bits");
            kani::cover!(ext_len > 4000, "complete_with_big_extension");
        }
        Ok(EncapStatus::FragmentedPkt(n, ctx)) => {
            assert!(*n as usize <= buf_len && *n as usize <= 4097, "C06.lattice_first_len_bounds");
            let field = (((buf_v[0] as usize) << 8) | buf_v[1] as usize) & 0x0FFF;
            assert!(field + 2 == *n as usize, "C13.reported_len_is_on_wire_len");
            assert!(buf_v[0] & 0xC0 == 0x80, "C13.start_end_bits");
            // on-wire length = fixed header, frag id, total length, type field, label, extension
            // (2-byte type + data; a final mandatory extension replaces the protocol type), payload
            assert!((ctx.len_pdu_frag() as usize) < pdu_len, "C13.first_ctx_inside_pdu");
            kani::cover!(ext_len > 4000, "first_with_big_extension");
            kani::cover!(ext_len < 10 && pdu_len > 100, "first_with_small_extension");
        }
    }
    core::mem::forget(enc);
}

#[cfg(feature = "twins")]
#[kani::proof]
#[kani::unwind(8)]
pub fn twin_encap_lattice() {
    let pdu_len = any_len(BIG);
    let buf_len = any_len(BIG);
    let pdu_v = zeros(pdu_len);
    let mut buf_v = zeros(buf_len);
    let mut enc = any_encapsulator();
    let md = EncapMetadata::new(kani::any(), any_label());
    let r = enc.encap(&pdu_v[..], 1, md, &mut buf_v[..]);
    if r.is_err() {
        assert!(false, "TWIN.reachable");
    }
    core::mem::forget(enc);
}

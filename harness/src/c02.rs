//! C02: fragmented round trip over every buffer schedule — by induction on the schedule.
//! Sender lemmas: c06 (the bytes of every packet are the layout of (kind, id, total length,
//! type, label, payload slice, CRC)), c11 (the context advances by exactly the bytes
//! written; progress), c12 (context CRC = calculator over the whole PDU).  Receiver lemmas:
//! rx.rs (first fragment opens the context with payload at offset 0; intermediate appends at
//! the offset; end delivers prefix ++ payload iff total length and CRC match).  Here: the
//! "13 bytes are always enough" clause, and a bounded literal end-to-end member.
use crate::dmodels::*;
use crate::extm::*;
use crate::models::*;
use crate::spec::*;
use dvb_gse_rust::crc::DefaultCrc;
use dvb_gse_rust::gse_decap::{DecapStatus, Decapsulator, GseDecapMemory, SimpleGseMemory};
use dvb_gse_rust::gse_encap::{ContextFrag, EncapError, EncapMetadata, EncapStatus, Encapsulator};
use dvb_gse_rust::label::Label;

/// A buffer of 13 bytes or more is never rejected as too small: by encap for a valid
/// (label, protocol type, PDU length), nor by encap_frag for a valid context; and every
/// accepted continuation call completes or advances (so at most remaining + 1 such buffers).
#[kani::proof]
#[kani::unwind(8)]
pub fn thirteen_bytes_always_accepted() {
    let pdu_len = any_len(65535);
    let buf_len = any_len(BIG);
    kani::assume(buf_len >= 13);
    let pdu_v = zeros(pdu_len);
    let mut buf_v = zeros(buf_len);
    let label = any_label();
    kani::assume(!is_zero6(&label));
    let ptype: u16 = kani::any();
    kani::assume(ptype >= 0x600);
    kani::assume(pdu_len + 2 + label.len() <= 65535);
    let mut enc = any_encapsulator();
    let r = enc.encap(&pdu_v[..], kani::any(), EncapMetadata::new(ptype, label), &mut buf_v[..]);
    assert!(r.is_ok(), "C02.encap_accepts_13_byte_buffers");
    let ctx = any_ctx();
    kani::assume(ctx.len_pdu_frag() as usize <= pdu_len);
    let r2 = enc.encap_frag(&pdu_v[..], &ctx, &mut buf_v[..]);
    match &r2 {
        Ok(EncapStatus::CompletedPkt(_)) => {}
        Ok(EncapStatus::FragmentedPkt(_, c2)) => {
            assert!(c2.len_pdu_frag() > ctx.len_pdu_frag(), "C02.continuation_advances");
        }
        Err(_) => assert!(false, "C02.encap_frag_accepts_13_byte_buffers"),
    }
    kani::cover!(buf_len == 13 && label.len() == 6, "exactly_13_with_6b_label");
    kani::cover!(pdu_len == 65527 && label.len() == 6, "largest_pdu");
    core::mem::forget(enc);
}

/// Bounded literal end-to-end (optional deepening): real encap (first fragment) ->
/// real decap -> real encap_frag (end) -> real decap, DefaultCrc on both sides, bundled
/// memory, PDU <= 4, 3-byte label; the conclusion of the property is asserted directly.
#[kani::proof]
#[kani::unwind(12)]
#[kani::stub(dvb_gse_rust::gse_decap::read_gse_header, crate::dmodels::hdr_first3b_or_end)]
#[kani::stub(dvb_gse_rust::gse_decap::iterate_over_extension_header, crate::dmodels::walker_unreachable)]
#[kani::stub(core::mem::swap, crate::dmodels::swap_stub)]
pub fn e2e_first_then_end() {
    const NP: usize = 4;
    const NB: usize = 16;
    let pdu: [u8; NP] = kani::any();
    let pdu_len = any_len(NP);
    let label = Label::ThreeBytesLabel(kani::any());
    let ptype: u16 = kani::any();
    kani::assume(ptype >= 0x600);
    let fid: u8 = kani::any();
    let mut enc = Encapsulator::new(DefaultCrc {});
    enc.disable_re_use_label();
    let mut b1: [u8; NB] = kani::any();
    let l1 = any_len(NB);
    let r1 = enc.encap(&pdu[..pdu_len], fid, EncapMetadata::new(ptype, label), &mut b1[..l1]);
    let (n1, ctx) = match r1 {
        Ok(EncapStatus::FragmentedPkt(n, c)) => (n as usize, c),
        _ => {
            core::mem::forget(enc);
            return;
        }
    };
    let mut b2: [u8; NB] = kani::any();
    let r2 = enc.encap_frag(&pdu[..pdu_len], &ctx, &mut b2[..]);
    let n2 = match r2 {
        Ok(EncapStatus::CompletedPkt(n)) => n as usize,
        _ => {
            assert!(false, "C02.sixteen_bytes_finish_a_4_byte_pdu");
            0
        }
    };
    let (mut mem, _g) = build_ref_ghost::<1, 6>(&crate::rx::S1_E);
    mem.mode = TakeMode::Match;
    let mut d = Decapsulator::new(mem, DefaultCrc {}, TestMgr);
    let d1 = d.decap(&b1[..n1]);
    match &d1 {
        Ok((DecapStatus::FragmentedPkt(md), c)) => {
            assert!(*c == n1, "C02.decap_consumes_reported_length");
            assert!(label_eq(&md.label(), &label) && md.protocol_type() == ptype, "C02.fragment_status_carries_label_and_type");
        }
        _ => assert!(false, "C02.first_fragment_accepted"),
    }
    let d2 = d.decap(&b2[..n2]);
    match &d2 {
        Ok((DecapStatus::CompletedPkt(out, md), c)) => {
            assert!(*c == n2, "C02.decap_consumes_reported_length");
            assert!(md.pdu_len() == pdu_len && md.protocol_type() == ptype && label_eq(&md.label(), &label), "C02.roundtrip_metadata");
            let i = any_len(NP - 1);
            if i < pdu_len {
                assert!(out[i] == pdu[i], "C02.roundtrip_bytes");
            }
            kani::cover!(pdu_len == NP, "largest");
        }
        _ => assert!(false, "C02.exactly_one_completed_pdu"),
    }
    core::mem::forget(d1);
    core::mem::forget(d2);
    core::mem::forget(d);
    core::mem::forget(enc);
}

#[cfg(feature = "twins")]
#[kani::proof]
#[kani::unwind(8)]
pub fn twin_thirteen() {
    let pdu_len = any_len(65535);
    let buf_len = any_len(BIG);
    let pdu_v = zeros(pdu_len);
    let mut buf_v = zeros(buf_len);
    let mut enc = any_encapsulator();
    let r = enc.encap(&pdu_v[..], 0, EncapMetadata::new(0x0800, Label::SixBytesLabel([1, 2, 3, 4, 5, 6])), &mut buf_v[..]);
    if r == Err(EncapError::ErrorSizeBuffer) && buf_len == 12 {
        assert!(false, "TWIN.reachable");
    }
    core::mem::forget(enc);
}

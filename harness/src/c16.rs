//! C16: the receiver recovers after any history.  Pre-states over-approximate every state
//! a history can leave behind (stale contexts on every slot, any remembered label, empty
//! or full free list); then: reset the label memory, offer one storage buffer (accepted, or
//! refused because the free list is full), and a fresh valid transfer is delivered.
use crate::dmodels::*;
use crate::extm::*;
use crate::models::*;
use crate::spec::*;
use dvb_gse_rust::gse_decap::{DecapMemoryError, DecapStatus, Decapsulator, GseDecapMemory, SimpleGseMemory};
use dvb_gse_rust::label::Label;

pub const Z: usize = 6;
pub const NB: usize = 20;

/// Writes a complete / first packet without extensions per the standard's layout.
pub fn write_start(buf: &mut [u8; NB], first: bool, label: &Label, fid: u8, total: u16, ptype: u16, payload: &[u8; 8], plen: usize) -> usize {
    let mut o = 2;
    if first {
        buf[o] = fid;
        buf[o + 1] = (total >> 8) as u8;
        buf[o + 2] = total as u8;
        o += 3;
    }
    buf[o] = (ptype >> 8) as u8;
    buf[o + 1] = ptype as u8;
    o += 2;
    let mut i = 0;
    while i < label.len() {
        buf[o] = label_byte(label, i);
        o += 1;
        i += 1;
    }
    let mut p = 0;
    while p < plen {
        buf[o] = payload[p];
        o += 1;
        p += 1;
    }
    let w = spec_encode(if first { Kind::First } else { Kind::Complete }, lt_of_label(label), (o - 2) as u16);
    buf[0] = (w >> 8) as u8;
    buf[1] = w as u8;
    o
}

/// reset + provision from an arbitrary state; returns true when the memory ends up with at
/// least one usable buffer for a new PDU (always, per the memory contract).
pub fn reset_and_provision<M: GseDecapMemory>(d: &mut Decapsulator<M, ConstCrc, TestMgr>) {
    d.reset_last_label();
    let (b, bg) = mk_buf(Z);
    match d.provision_storage(b) {
        Ok(()) => {
            kani::cover!(true, "provision_accepted");
        }
        Err(DecapMemoryError::StorageOverflow(x)) => {
            assert!(x.as_ptr() == bg.ptr, "C16.refused_buffer_handed_back");
            core::mem::forget(x);
            kani::cover!(true, "free_list_full");
        }
        Err(_) => assert!(false, "C16.provision_ok_or_full"),
    }
}

/// Complete packet with an explicit (3- or 6-byte) label after recovery, reference memory.
pub fn recover_complete<const S: usize>(sh: &Shape) {
    let (mem, g) = build_ref_ghost::<S, Z>(sh);
    let mut d = Decapsulator::new(mem, ConstCrc(0), TestMgr);
    d.verif_set_last_label(any_rx_label());
    reset_and_provision(&mut d);
    let label = any_memorable_label();
    let ptype: u16 = kani::any();
    kani::assume(ptype >= 0x600);
    let payload: [u8; 8] = kani::any();
    let plen = any_len(Z);
    let mut buf: [u8; NB] = kani::any();
    let n = write_start(&mut buf, false, &label, 0, 0, ptype, &payload, plen);
    let len = any_len(NB);
    kani::assume(len >= n);
    let r = d.decap(&buf[..len]);
    match &r {
        Ok((DecapStatus::CompletedPkt(out, md), consumed)) => {
            assert!(*consumed == n, "C16.consumes_own_length");
            assert!(md.pdu_len() == plen && md.protocol_type() == ptype && label_eq(&md.label(), &label), "C16.complete_metadata");
            let i = any_len(Z - 1);
            if i < plen {
                assert!(out[i] == payload[i], "C16.complete_bytes");
            }
            kani::cover!(plen == Z, "full_size");
        }
        _ => assert!(false, "C16.complete_packet_delivered_after_recovery"),
    }
    // stale reassemblies are still there, untouched
    let mut k = 0;
    while k < S {
        assert!(slot_unchanged(&d.memory, &g, k), "C07.complete_packet_leaves_reassemblies_untouched");
        k += 1;
    }
    core::mem::forget(r);
    core::mem::forget(d);
}

/// First fragment of a fresh transfer on an arbitrary fragment id mapping to slot `k`.
pub fn recover_first<const S: usize>(sh: &Shape, k: usize) {
    let (mut mem, _g) = build_ref_ghost::<S, Z>(sh);
    mem.slot_hint = Some(k);
    let mut d = Decapsulator::new(mem, ConstCrc(0), TestMgr);
    d.verif_set_last_label(any_rx_label());
    reset_and_provision(&mut d);
    let label: Label = {
        let b: bool = kani::any();
        if b { any_memorable_label() } else { Label::Broadcast }
    };
    let ptype: u16 = kani::any();
    kani::assume(ptype >= 0x600);
    let payload: [u8; 8] = kani::any();
    let plen = any_len(Z);
    let fid: u8 = kani::any();
    let total: u16 = kani::any();
    kani::assume(total as usize > plen + 2 + label.len());
    let mut buf: [u8; NB] = kani::any();
    let n = write_start(&mut buf, true, &label, fid, total, ptype, &payload, plen);
    let len = any_len(NB);
    kani::assume(len >= n);
    let r = d.decap(&buf[..len]);
    match &r {
        Ok((DecapStatus::FragmentedPkt(md), consumed)) => {
            assert!(*consumed == n, "C16.consumes_own_length");
            assert!(md.protocol_type() == ptype && label_eq(&md.label(), &label), "C16.first_metadata");
            match &d.memory.slots[k] {
                Some((c, b)) => {
                    let exp = CtxG { label, ptype, frag_id: fid, total_len: total, pdu_len: plen as u16, reuse: false, n_ext: 0 };
                    assert!(ctx_matches(c, &exp), "C16.fresh_context_replaces_stale_one");
                    let i = any_len(Z - 1);
                    if i < plen {
                        assert!(b[i] == payload[i], "C16.first_payload_stored");
                    }
                }
                None => assert!(false, "C16.first_fragment_opens_a_context"),
            }
            kani::cover!(sh.occ[k], "stale_context_replaced");
        }
        _ => assert!(false, "C16.first_fragment_accepted_after_recovery"),
    }
    core::mem::forget(r);
    core::mem::forget(d);
}

/// Same recovery with the bundled memory in the loop (complete packet).
pub fn recover_complete_simple(sh: &Shape) {
    let mem = build_simple::<Z>(sh);
    let mut d = Decapsulator::new(mem, ConstCrc(0), TestMgr);
    d.verif_set_last_label(any_rx_label());
    reset_and_provision(&mut d);
    let label = any_memorable_label();
    let ptype: u16 = kani::any();
    kani::assume(ptype >= 0x600);
    let payload: [u8; 8] = kani::any();
    let plen = any_len(Z);
    let mut buf: [u8; NB] = kani::any();
    let n = write_start(&mut buf, false, &label, 0, 0, ptype, &payload, plen);
    let r = d.decap(&buf[..n]);
    match &r {
        Ok((DecapStatus::CompletedPkt(out, md), consumed)) => {
            assert!(*consumed == n, "C16.consumes_own_length");
            assert!(md.pdu_len() == plen && md.protocol_type() == ptype && label_eq(&md.label(), &label), "C16.complete_metadata");
            let i = any_len(Z - 1);
            if i < plen {
                assert!(out[i] == payload[i], "C16.complete_bytes");
            }
        }
        _ => assert!(false, "C16.complete_packet_delivered_after_recovery"),
    }
    core::mem::forget(r);
    core::mem::forget(d);
}

macro_rules! rec {
    ($name:ident, $stub:path, $body:expr) => {
        #[kani::proof]
        #[kani::unwind(10)]
        #[kani::stub(dvb_gse_rust::gse_decap::read_gse_header, $stub)]
        #[kani::stub(dvb_gse_rust::gse_decap::iterate_over_extension_header, crate::dmodels::walker_unreachable)]
        #[kani::stub(core::mem::swap, crate::dmodels::swap_stub)]
        pub fn $name() {
            $body
        }
    };
}

const S1_STALE_EMPTY: Shape = Shape { s: 1, occ: [true, false, false], free: 0, ext: 0 };
const S1_STALE_FULL: Shape = Shape { s: 1, occ: [true, false, false], free: 3, ext: 0 };
const S1_CLEAN_EMPTY: Shape = Shape { s: 1, occ: [false, false, false], free: 0, ext: 0 };
const S2_STALE_BOTH: Shape = Shape { s: 2, occ: [true, true, false], free: 0, ext: 1 };
const S2_STALE_FULL: Shape = Shape { s: 2, occ: [true, false, false], free: 4, ext: 0 };

rec!(complete_s1_stale_empty, crate::dmodels::hdr_complete, recover_complete::<1>(&S1_STALE_EMPTY));
rec!(complete_s1_stale_full, crate::dmodels::hdr_complete, recover_complete::<1>(&S1_STALE_FULL));
rec!(complete_s1_clean_empty, crate::dmodels::hdr_complete, recover_complete::<1>(&S1_CLEAN_EMPTY));
rec!(complete_s2_stale_both, crate::dmodels::hdr_complete, recover_complete::<2>(&S2_STALE_BOTH));
rec!(complete_s2_stale_full, crate::dmodels::hdr_complete, recover_complete::<2>(&S2_STALE_FULL));
rec!(first_s1_stale_empty, crate::dmodels::hdr_first, recover_first::<1>(&S1_STALE_EMPTY, 0));
rec!(first_s1_stale_full, crate::dmodels::hdr_first, recover_first::<1>(&S1_STALE_FULL, 0));
rec!(first_s1_clean_empty, crate::dmodels::hdr_first, recover_first::<1>(&S1_CLEAN_EMPTY, 0));
rec!(first_s2_stale_both_slot0, crate::dmodels::hdr_first, recover_first::<2>(&S2_STALE_BOTH, 0));
rec!(first_s2_stale_both_slot1, crate::dmodels::hdr_first, recover_first::<2>(&S2_STALE_BOTH, 1));
rec!(first_s2_stale_full_slot1, crate::dmodels::hdr_first, recover_first::<2>(&S2_STALE_FULL, 1));
rec!(simple_complete_s1_stale_empty, crate::dmodels::hdr_complete, recover_complete_simple(&S1_STALE_EMPTY));
rec!(simple_complete_s1_stale_full, crate::dmodels::hdr_complete, recover_complete_simple(&S1_STALE_FULL));
rec!(simple_complete_s2_stale_both, crate::dmodels::hdr_complete, recover_complete_simple(&S2_STALE_BOTH));

#[cfg(feature = "twins")]
#[kani::proof]
#[kani::unwind(10)]
#[kani::stub(dvb_gse_rust::gse_decap::read_gse_header, crate::dmodels::hdr_complete)]
#[kani::stub(dvb_gse_rust::gse_decap::iterate_over_extension_header, crate::dmodels::walker_unreachable)]
pub fn twin_recover() {
    let (mem, _g) = build_ref_ghost::<1, Z>(&S1_STALE_EMPTY);
    let mut d = Decapsulator::new(mem, ConstCrc(0), TestMgr);
    // no provision: nothing can be delivered
    let payload: [u8; 8] = kani::any();
    let mut buf: [u8; NB] = kani::any();
    let n = write_start(&mut buf, false, &Label::Broadcast, 0, 0, 0x0800, &payload, 3);
    let r = d.decap(&buf[..n]);
    if r.is_err() {
        assert!(false, "TWIN.reachable");
    }
    core::mem::forget(r);
    core::mem::forget(d);
}

//! C10: back-to-back packets and padding.  Tail independence and "consumes its own length"
//! are asserted inside every receiver lemma of rx.rs (their buffers always carry an
//! arbitrary tail); here: padding, and the literal two-packet frame walk.
use crate::dmodels::*;
use crate::extm::*;
use crate::models::*;
use crate::spec::*;
use dvb_gse_rust::gse_decap::{DecapStatus, Decapsulator, GseDecapMemory};
use dvb_gse_rust::gse_encap::{EncapMetadata, EncapStatus, Encapsulator};
use dvb_gse_rust::label::Label;

/// A run of k >= 2 zero bytes (k symbolic, <= 64) is padding: Ok(Padding) consuming all of
/// it, from any receiver state; and anything that starts with a zero nibble is padding
/// whatever follows.
#[kani::proof]
#[kani::unwind(8)]
#[kani::stub(dvb_gse_rust::gse_decap::read_gse_header, crate::dmodels::hdr_padding)]
pub fn padding_consumes_rest() {
    let (mem, g) = build_ref_ghost::<1, 6>(&crate::rx::S1_O1);
    let before = count_bufs(&mem);
    let mut d = Decapsulator::new(mem, ConstCrc(0), TestMgr);
    d.verif_set_last_label(any_rx_label());
    let buf: [u8; 64] = kani::any();
    let k = any_len(64);
    kani::assume(k >= 2);
    let r = d.decap(&buf[..k]);
    match &r {
        Ok((DecapStatus::Padding, consumed)) => assert!(*consumed == k, "C10.padding_consumes_rest_of_frame"),
        _ => assert!(false, "C10.zero_nibble_is_padding"),
    }
    assert!(slot_unchanged(&d.memory, &g, 0) && count_bufs(&d.memory) == before, "C07.padding_leaves_memory");
    kani::cover!(k == 64, "long_padding");
    kani::cover!(k == 2, "two_bytes");
    core::mem::forget(r);
    core::mem::forget(d);
}

/// Padding of any length up to 70000 bytes: a zero first nibble followed by anything (one
/// symbolic byte at a symbolic position, and the low nibble of the first byte) is padding
/// and consumes the whole rest of the frame.
#[kani::proof]
#[kani::unwind(8)]
#[kani::stub(dvb_gse_rust::gse_decap::read_gse_header, crate::dmodels::hdr_padding)]
pub fn padding_lattice() {
    let (mem, g) = build_ref_ghost::<1, 6>(&crate::rx::S1_O1);
    let before = count_bufs(&mem);
    let mut d = Decapsulator::new(mem, ConstCrc(0), TestMgr);
    d.verif_set_last_label(any_rx_label());
    let k = any_len(70000);
    kani::assume(k >= 2);
    let mut buf = zeros(k);
    let low: u8 = kani::any();
    buf[0] = low & 0x0F;
    let i = any_len(70000);
    if i >= 1 && i < k {
        buf[i] = kani::any();
    }
    let r = d.decap(&buf[..]);
    match &r {
        Ok((DecapStatus::Padding, consumed)) => assert!(*consumed == k, "C10.padding_consumes_rest_of_frame"),
        _ => assert!(false, "C10.zero_nibble_is_padding"),
    }
    assert!(slot_unchanged(&d.memory, &g, 0) && count_bufs(&d.memory) == before, "C07.padding_leaves_memory");
    kani::cover!(k > 65536, "padding_longer_than_16_bits");
    core::mem::forget(r);
    core::mem::forget(d);
}

/// Literal frame walk, one formula (optional deepening; the general statement is the
/// induction over the rx.rs lemmas): [complete packet written by the real encap, 3-byte
/// PDU, broadcast label][zero padding]; walking by consumed lengths sees the packet, then
/// padding up to the end of the frame.
#[kani::proof]
#[kani::unwind(8)]
#[kani::stub(dvb_gse_rust::gse_decap::read_gse_header, crate::dmodels::hdr_complete_or_padding)]
#[kani::stub(dvb_gse_rust::gse_decap::iterate_over_extension_header, crate::dmodels::walker_unreachable)]
pub fn frame_walk_packet_then_padding() {
    const NF: usize = 16;
    let pdu: [u8; 3] = kani::any();
    let mut frame = [0u8; NF];
    let ptype: u16 = kani::any();
    kani::assume(ptype >= 0x600);
    let mut enc = Encapsulator::new(ConstCrc(0));
    let md = EncapMetadata::new(ptype, Label::Broadcast);
    let r = enc.encap(&pdu[..], 0, md, &mut frame[..]);
    assert!(r == Ok(EncapStatus::CompletedPkt(7)), "C10.small_pdu_completes");
    assert!(frame[0] & 0xF0 != 0, "C10.emitted_packet_is_not_padding");
    let (mem, _g) = build_ref_ghost::<1, 6>(&crate::rx::S1_E);
    let mut d = Decapsulator::new(mem, ConstCrc(0), TestMgr);
    let r1 = d.decap(&frame[..]);
    match &r1 {
        Ok((DecapStatus::CompletedPkt(out, dmd), c)) => {
            assert!(*c == 7, "C10.walk_advances_by_packet_length");
            assert!(dmd.pdu_len() == 3 && out[0] == pdu[0] && out[2] == pdu[2], "C10.walk_first_packet_same_as_alone");
        }
        _ => assert!(false, "C10.walk_first_packet_delivered"),
    }
    let r2 = d.decap(&frame[7..]);
    match &r2 {
        Ok((DecapStatus::Padding, c2)) => assert!(7 + *c2 == NF, "C10.walk_padding_to_end_of_frame"),
        _ => assert!(false, "C10.walk_then_padding"),
    }
    kani::cover!(true, "reached");
    core::mem::forget(r1);
    core::mem::forget(r2);
    core::mem::forget(d);
    core::mem::forget(enc);
}

#[cfg(feature = "twins")]
#[kani::proof]
#[kani::unwind(8)]
#[kani::stub(dvb_gse_rust::gse_decap::read_gse_header, crate::dmodels::hdr_padding)]
pub fn twin_padding() {
    let (mem, _g) = build_ref_ghost::<1, 6>(&crate::rx::S1_O1);
    let mut d = Decapsulator::new(mem, ConstCrc(0), TestMgr);
    let buf: [u8; 8] = kani::any();
    let r = d.decap(&buf[..]);
    if r.is_ok() {
        assert!(false, "TWIN.reachable");
    }
    core::mem::forget(r);
    core::mem::forget(d);
}

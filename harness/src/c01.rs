//! C01: unfragmented round trip.  Sender side here (lattice: "encap must report a completed
//! packet whenever it fits"; byte tier is c06::encap_bytes), receiver side is the complete
//! packet lemma of rx.rs; the joint one-formula harness below feeds the real sender's
//! bytes to the real receiver.
use crate::dmodels::*;
use crate::extm::*;
use crate::models::*;
use crate::spec::*;
use dvb_gse_rust::gse_decap::{DecapStatus, Decapsulator, GseDecapMemory, SimpleGseMemory};
use dvb_gse_rust::gse_encap::{EncapMetadata, EncapStatus, Encapsulator};
use dvb_gse_rust::label::Label;

/// Lattice: encap returns CompletedPkt IFF protocol type + label as written + PDU fit the
/// 4095-byte GSE length and the buffer can hold the packet; then n = 4 + label + PDU.
#[kani::proof]
#[kani::unwind(8)]
pub fn complete_iff_fits_lattice() {
    let pdu_len = any_len(BIG);
    let buf_len = any_len(BIG);
    let pdu_v = zeros(pdu_len);
    let mut buf_v = zeros(buf_len);
    let label = any_label();
    kani::assume(!is_zero6(&label));
    let ptype: u16 = kani::any();
    kani::assume(ptype >= 0x600);
    let st = any_enc_state();
    let mut enc = Encapsulator::verif_from_parts(ConstCrc(0), st.0, st.1, st.2, st.3);
    let md = EncapMetadata::new(ptype, label);
    let r = enc.encap(&pdu_v[..], kani::any(), md, &mut buf_v[..]);
    let wl = crate::c06::written_label(&st, &label);
    let fits = 2 + wl.len() + pdu_len <= 4095 && buf_len >= 4 + wl.len() + pdu_len;
    match &r {
        Ok(EncapStatus::CompletedPkt(n)) => {
            assert!(fits, "C01.completed_only_if_fits");
            assert!(*n as usize == 4 + wl.len() + pdu_len, "C01.completed_length");
            kani::cover!(pdu_len == 4093 && buf_len > 4097, "max_complete_in_big_buffer");
            kani::cover!(wl.len() == 0 && label.len() == 6, "reuse_substituted");
        }
        _ => {
            assert!(!fits, "C01.must_complete_when_it_fits");
            kani::cover!(buf_len > 4097, "not_complete_big_buffer");
        }
    }
    core::mem::forget(enc);
}

/// Joint, one formula: real encap -> real decap (SimpleGseMemory, one slot), PDU <= 6,
/// every label kind, sender re-use state arbitrary with the receiver's remembered label
/// equal to the sender's (the C04 joint invariant), storage size >= PDU.
#[kani::proof]
#[kani::unwind(8)]
#[kani::stub(dvb_gse_rust::gse_decap::read_gse_header, crate::dmodels::hdr_complete)]
#[kani::stub(dvb_gse_rust::gse_decap::iterate_over_extension_header, crate::dmodels::walker_unreachable)]
#[kani::stub(core::mem::swap, crate::dmodels::swap_stub)]
pub fn joint_complete_roundtrip() {
    const NP: usize = 6;
    const NB: usize = 20;
    let pdu: [u8; NP] = kani::any();
    let pdu_len = any_len(NP);
    let mut buf: [u8; NB] = kani::any();
    let buf_len = any_len(NB);
    let label = any_label();
    let ptype: u16 = kani::any();
    kani::assume(ptype >= 0x600);
    let st = any_enc_state();
    let mut enc = Encapsulator::verif_from_parts(ConstCrc(0), st.0, st.1, st.2, st.3);
    let md = EncapMetadata::new(ptype, label);
    let r = enc.encap(&pdu[..pdu_len], kani::any(), md, &mut buf[..buf_len]);
    if let Ok(EncapStatus::CompletedPkt(n)) = r {
        let n = n as usize;
        let mut mem = SimpleGseMemory::new(1, NP, 0, 0);
        let stor: [u8; NP] = kani::any();
        let pr = mem.provision_storage(Box::new(stor));
        assert!(pr.is_ok(), "MODEL.provision");
        let mut d = Decapsulator::new(mem, ConstCrc(0), TestMgr);
        // receiver remembers what the sender remembers (joint invariant of C04)
        d.verif_set_last_label(st.3);
        // explicit re-use passed by the caller needs a remembered label to resolve
        let explicit_reuse = label_eq(&label, &Label::ReUse);
        kani::assume(!explicit_reuse || st.3.is_some());
        let dr = d.decap(&buf[..n]);
        match &dr {
            Ok((DecapStatus::CompletedPkt(out, dmd), consumed)) => {
                assert!(*consumed == n, "C01.decap_consumes_reported_length");
                assert!(dmd.pdu_len() == pdu_len, "C01.roundtrip_length");
                assert!(dmd.protocol_type() == ptype, "C01.roundtrip_protocol_type");
                let want = if explicit_reuse { st.3.unwrap() } else { label };
                assert!(label_eq(&dmd.label(), &want), "C01.roundtrip_label");
                let i = any_len(NP - 1);
                if i < pdu_len {
                    assert!(out[i] == pdu[i], "C01.roundtrip_bytes");
                }
                kani::cover!(pdu_len == NP, "full_pdu");
                kani::cover!(label.len() == 6 && n == 4 + pdu_len, "substituted_label_resolved");
            }
            _ => assert!(false, "C01.roundtrip_delivers"),
        }
        core::mem::forget(dr);
        core::mem::forget(d);
    }
    core::mem::forget(enc);
}

#[cfg(feature = "twins")]
#[kani::proof]
#[kani::unwind(8)]
pub fn twin_complete_lattice() {
    let pdu_len = any_len(BIG);
    let buf_len = any_len(BIG);
    let pdu_v = zeros(pdu_len);
    let mut buf_v = zeros(buf_len);
    let mut enc = any_encapsulator();
    let md = EncapMetadata::new(0x0800, Label::Broadcast);
    let r = enc.encap(&pdu_v[..], 0, md, &mut buf_v[..]);
    if let Ok(EncapStatus::CompletedPkt(n)) = r {
        if n == 4097 {
            assert!(false, "TWIN.reachable");
        }
    }
    core::mem::forget(enc);
}

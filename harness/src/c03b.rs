//! C03 (thorough): burst detection is a property of the calculator.  For every message of
//! 4 + 3 + 8 bytes (total length, protocol type, 3-byte label, 8-byte PDU) plus the 4-byte
//! trailer, flipping any non-empty set of bits confined to a window of 32 consecutive bits
//! anywhere in the 19 protected bytes changes the verdict "trailer == CRC(message)".
use crate::models::*;
use crate::spec::*;
use dvb_gse_rust::crc::{CrcCalculator, DefaultCrc};

pub const NM: usize = 8;

fn crc_of(tl: u16, pt: u16, lab: &[u8; 3], pdu: &[u8; NM]) -> u32 {
    DefaultCrc {}.calculate_crc32(&pdu[..], pt, tl, &lab[..])
}

/// All bursts of span <= 32 bits inside the 19 bytes (message ++ trailer), every message.
#[kani::proof]
#[kani::unwind(10)]
pub fn burst_up_to_32_bits_detected() {
    let tl: u16 = kani::any();
    let pt: u16 = kani::any();
    let lab: [u8; 3] = kani::any();
    let pdu: [u8; NM] = kani::any();
    let good = crc_of(tl, pt, &lab, &pdu);
    // protected byte string: tl(2) pt(2) label(3) pdu(8) trailer(4) = 19 bytes
    let mut msg = [0u8; 19];
    msg[0] = (tl >> 8) as u8;
    msg[1] = tl as u8;
    msg[2] = (pt >> 8) as u8;
    msg[3] = pt as u8;
    msg[4] = lab[0];
    msg[5] = lab[1];
    msg[6] = lab[2];
    let mut i = 0;
    while i < NM {
        msg[7 + i] = pdu[i];
        i += 1;
    }
    msg[15] = (good >> 24) as u8;
    msg[16] = (good >> 16) as u8;
    msg[17] = (good >> 8) as u8;
    msg[18] = good as u8;
    // burst: a non-zero 32-bit pattern placed at bit offset `off` (MSB-first bit numbering)
    let pattern: u32 = kani::any();
    kani::assume(pattern != 0);
    let off: usize = kani::any();
    kani::assume(off <= 19 * 8 - 32);
    let byte0 = off / 8;
    let sh = (off % 8) as u32;
    // the pattern covers bytes byte0..byte0+5 after shifting right by `sh` bits in a 40-bit window
    let wide: u64 = (pattern as u64) << (8 - sh);
    let mut k = 0;
    while k < 5 {
        if byte0 + k < 19 {
            msg[byte0 + k] ^= (wide >> (32 - 8 * k as u32)) as u8;
        }
        k += 1;
    }
    let tl2 = ((msg[0] as u16) << 8) | msg[1] as u16;
    let pt2 = ((msg[2] as u16) << 8) | msg[3] as u16;
    let lab2 = [msg[4], msg[5], msg[6]];
    let mut pdu2 = [0u8; NM];
    let mut j = 0;
    while j < NM {
        pdu2[j] = msg[7 + j];
        j += 1;
    }
    let trailer2 = ((msg[15] as u32) << 24) | ((msg[16] as u32) << 16) | ((msg[17] as u32) << 8) | msg[18] as u32;
    assert!(crc_of(tl2, pt2, &lab2, &pdu2) != trailer2, "C03.burst_of_up_to_32_bits_is_detected");
    kani::cover!(off == 19 * 8 - 32, "burst_in_trailer");
    kani::cover!(off == 0 && pattern == 1, "single_bit_in_total_length");
}

//! Environment models and symbolic-value helpers shared by the harnesses.
use crate::spec::{Kind, LT};
use dvb_gse_rust::label::{Label, LabelType};

pub fn any_kind() -> Kind {
    let k: u8 = kani::any();
    kani::assume(k < 4);
    match k {
        0 => Kind::Complete,
        1 => Kind::First,
        2 => Kind::Intermediate,
        _ => Kind::End,
    }
}

pub fn any_lt() -> LT {
    let k: u8 = kani::any();
    kani::assume(k < 4);
    match k {
        0 => LT::Six,
        1 => LT::Three,
        2 => LT::Broadcast,
        _ => LT::ReUse,
    }
}

use dvb_gse_rust::crc::CrcCalculator;
use dvb_gse_rust::gse_encap::{ContextFrag, EncapMetadata, Encapsulator};

/// Upper end of the lattice tier: lengths range over 0..=BIG (quick: 70000, as in the
/// properties' quantifiers; thorough: 2^20).
#[cfg(not(feature = "deep"))]
pub const BIG: usize = 70000;
#[cfg(feature = "deep")]
pub const BIG: usize = 1 << 20;

pub fn any_len(max: usize) -> usize {
    let n: usize = kani::any();
    kani::assume(n <= max);
    n
}

pub fn any_label() -> Label {
    let k: u8 = kani::any();
    kani::assume(k < 4);
    match k {
        0 => Label::SixBytesLabel(kani::any()),
        1 => Label::ThreeBytesLabel(kani::any()),
        2 => Label::Broadcast,
        _ => Label::ReUse,
    }
}

pub fn is_zero6(l: &Label) -> bool {
    match l {
        Label::SixBytesLabel(b) => {
            b[0] == 0 && b[1] == 0 && b[2] == 0 && b[3] == 0 && b[4] == 0 && b[5] == 0
        }
        _ => false,
    }
}

/// Loop-free label equality (the derived one goes through a memcmp loop).
pub fn label_eq(a: &Label, b: &Label) -> bool {
    match (a, b) {
        (Label::SixBytesLabel(x), Label::SixBytesLabel(y)) => {
            x[0] == y[0] && x[1] == y[1] && x[2] == y[2] && x[3] == y[3] && x[4] == y[4] && x[5] == y[5]
        }
        (Label::ThreeBytesLabel(x), Label::ThreeBytesLabel(y)) => {
            x[0] == y[0] && x[1] == y[1] && x[2] == y[2]
        }
        (Label::Broadcast, Label::Broadcast) => true,
        (Label::ReUse, Label::ReUse) => true,
        _ => false,
    }
}

pub fn opt_label_eq(a: &Option<Label>, b: &Option<Label>) -> bool {
    match (a, b) {
        (None, None) => true,
        (Some(x), Some(y)) => label_eq(x, y),
        _ => false,
    }
}

/// A label that can legitimately sit in a label memory: 3-byte or non-zero 6-byte.
pub fn any_memorable_label() -> Label {
    let six: bool = kani::any();
    if six {
        let l = Label::SixBytesLabel(kani::any());
        kani::assume(!is_zero6(&l));
        l
    } else {
        Label::ThreeBytesLabel(kani::any())
    }
}

pub fn any_label_memory() -> Option<Label> {
    let some: bool = kani::any();
    if some {
        Some(any_memorable_label())
    } else {
        None
    }
}

/// Arbitrary encapsulator re-use state under the representation invariant (DESIGN 3.7):
/// current <= max; !activated => max == 0 && current == 0 && memory empty;
/// memory None / 3-byte / non-zero 6-byte.  (C15's step harnesses show that `new`
/// establishes this invariant and every public operation preserves it.)
pub fn any_enc_state() -> (bool, u8, u8, Option<Label>) {
    let act: bool = kani::any();
    let max: u8 = kani::any();
    let cur: u8 = kani::any();
    kani::assume(cur <= max);
    kani::assume(act || max == 0);
    let last = any_label_memory();
    kani::assume(act || last.is_none());
    (act, max, cur, last)
}

/// CRC calculator returning a fixed (symbolic) value: no loop over the PDU.
#[derive(Clone, Copy, Debug, PartialEq, Eq)]
pub struct ConstCrc(pub u32);
impl CrcCalculator for ConstCrc {
    fn calculate_crc32(&self, _pdu: &[u8], _pt: u16, _tl: u16, _label: &[u8]) -> u32 {
        self.0
    }
}

pub fn any_encapsulator() -> Encapsulator<ConstCrc> {
    let (act, max, cur, last) = any_enc_state();
    Encapsulator::verif_from_parts(ConstCrc(kani::any()), act, max, cur, last)
}

pub fn state_eq(a: &(bool, u8, u8, Option<Label>), b: &(bool, u8, u8, Option<Label>)) -> bool {
    a.0 == b.0 && a.1 == b.1 && a.2 == b.2 && opt_label_eq(&a.3, &b.3)
}

pub fn any_ctx() -> ContextFrag {
    ContextFrag::new(kani::any(), kani::any(), kani::any())
}

/// Zero-filled heap slice of symbolic length (calloc: no loop, no big array in the formula).
/// Lattice-tier harnesses use it for PDUs / buffers whose *contents* are never read back.
pub fn zeros(n: usize) -> core::mem::ManuallyDrop<Vec<u8>> {
    core::mem::ManuallyDrop::new(vec![0u8; n])
}

use core::cell::Cell;

/// Recording CRC calculator (DESIGN 3.1): returns a symbolic constant and records how it
/// was called — lengths, scalar arguments, and the bytes found at one symbolic index of
/// the PDU and of the label — so that harnesses can state WHICH bytes were handed to the
/// calculator without unrolling a CRC loop.
pub struct RecCrc {
    pub ret: u32,
    pub pdu_idx: usize,
    pub lab_idx: usize,
    pub calls: Cell<u32>,
    pub pdu_len: Cell<usize>,
    pub pdu_at: Cell<Option<u8>>,
    pub pt: Cell<u16>,
    pub tl: Cell<u16>,
    pub lab_len: Cell<usize>,
    pub lab_at: Cell<Option<u8>>,
}

impl RecCrc {
    pub fn new(ret: u32, pdu_idx: usize, lab_idx: usize) -> Self {
        RecCrc {
            ret,
            pdu_idx,
            lab_idx,
            calls: Cell::new(0),
            pdu_len: Cell::new(0),
            pdu_at: Cell::new(None),
            pt: Cell::new(0),
            tl: Cell::new(0),
            lab_len: Cell::new(0),
            lab_at: Cell::new(None),
        }
    }
}

impl CrcCalculator for RecCrc {
    fn calculate_crc32(&self, pdu: &[u8], pt: u16, tl: u16, label: &[u8]) -> u32 {
        self.calls.set(self.calls.get() + 1);
        self.pdu_len.set(pdu.len());
        self.pdu_at.set(if self.pdu_idx < pdu.len() { Some(pdu[self.pdu_idx]) } else { None });
        self.pt.set(pt);
        self.tl.set(tl);
        self.lab_len.set(label.len());
        self.lab_at.set(if self.lab_idx < label.len() { Some(label[self.lab_idx]) } else { None });
        self.ret
    }
}

impl<'a> CrcCalculator for &'a RecCrc {
    fn calculate_crc32(&self, pdu: &[u8], pt: u16, tl: u16, label: &[u8]) -> u32 {
        (**self).calculate_crc32(pdu, pt, tl, label)
    }
}

//! Environment models and symbolic-value helpers shared by the harnesses.
use crate::spec::{Kind, LT};
use dvb_gse_rust::label::{Label, LabelType};

pub fn any_kind() -> Kind {
    let k: u8 = kani::any();
    kani::assume(k < 4);
    match k {
        0 => Kind::Complete,
        1 => Kind::First,
        2 => Kind::Intermediate,
        _ => Kind::End,
    }
}

pub fn any_lt() -> LT {
    let k: u8 = kani::any();
    kani::assume(k < 4);
    match k {
        0 => LT::Six,
        1 => LT::Three,
        2 => LT::Broadcast,
        _ => LT::ReUse,
    }
}

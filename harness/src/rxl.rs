//! Receiver lattice tier: packets up to the 4097-byte maximum, storage buffers and frames
//! up to 5000 bytes, all LENGTHS symbolic, contents zero except ONE symbolic byte at a
//! symbolic position in the payload (and one in the already-stored prefix): the byte must
//! arrive at its position in the reassembly / delivered buffer and nothing else may be
//! disturbed.  Extends the byte-tier receiver lemmas (rx.rs) to every size.
use crate::dmodels::*;
use crate::extm::*;
use crate::models::*;
use crate::spec::*;
use dvb_gse_rust::gse_decap::{DecapContext, DecapError, DecapStatus, Decapsulator, GseDecapMemory};
use dvb_gse_rust::label::Label;

pub const FR: usize = 5000;
pub const BIG: usize = 70000;

fn boxed_zeros(n: usize) -> Box<[u8]> {
    core::mem::ManuallyDrop::into_inner(zeros(n)).into_boxed_slice()
}

fn put16(b: &mut [u8], off: usize, v: u16) {
    b[off] = (v >> 8) as u8;
    b[off + 1] = v as u8;
}

/// Complete packet (broadcast label, no extension), GSE length 2..=4095, frame up to 5000
/// bytes, storage 0..=5000 bytes.
#[kani::proof]
#[kani::unwind(8)]
#[kani::stub(dvb_gse_rust::gse_decap::read_gse_header, crate::dmodels::hdr_complete_bc)]
#[kani::stub(dvb_gse_rust::gse_decap::iterate_over_extension_header, crate::dmodels::walker_unreachable)]
pub fn complete_lattice() {
    complete_lattice_body(FR);
}

/// Same with frames and storage buffers up to 70000 bytes.
#[kani::proof]
#[kani::unwind(8)]
#[kani::stub(dvb_gse_rust::gse_decap::read_gse_header, crate::dmodels::hdr_complete_bc)]
#[kani::stub(dvb_gse_rust::gse_decap::iterate_over_extension_header, crate::dmodels::walker_unreachable)]
pub fn complete_lattice_big() {
    complete_lattice_body(BIG);
}

fn complete_lattice_body(zmax: usize) {
    let len = any_len(zmax);
    let gse_len = any_len(4095);
    kani::assume(gse_len >= 2 && gse_len + 2 <= len);
    let mut buf = zeros(len);
    put16(&mut buf, 0, spec_encode(Kind::Complete, LT::Broadcast, gse_len as u16));
    let ptype: u16 = kani::any();
    kani::assume(ptype >= 0x600);
    put16(&mut buf, 2, ptype);
    let m = gse_len - 2;
    let i = any_len(4095);
    let x: u8 = kani::any();
    kani::assume(x != 0);
    if i < m {
        buf[4 + i] = x;
    }
    let z = any_len(zmax);
    let mut mem = <RefMem<1> as GseDecapMemory>::new(1, 0, 0, 0);
    let stor = boxed_zeros(z);
    let sp = stor.as_ptr();
    mem.free[0] = Some(stor);
    let mut d = Decapsulator::new(mem, ConstCrc(0), TestMgr);
    let r = d.decap(&buf[..]);
    match &r {
        Ok((DecapStatus::CompletedPkt(out, md), consumed)) => {
            assert!(m <= z, "C01.delivery_needs_storage");
            assert!(*consumed == gse_len + 2, "C01.consumes_reported_length");
            assert!(md.pdu_len() == m && md.protocol_type() == ptype, "C01.pdu_length");
            assert!(out.as_ptr() == sp && out.len() == z, "C08.delivered_in_a_provisioned_buffer");
            if i < m {
                assert!(out[i] == x, "C01.pdu_bytes");
                kani::cover!(i > 4000, "deep_position");
            }
            let j = any_len(zmax);
            if j < z && j != i {
                assert!(out[j] == 0, "C01.no_other_byte_disturbed");
            }
            kani::cover!(m == 4093, "largest_complete_packet");
            kani::cover!(m == z, "storage_exactly_pdu_length");
        }
        Err((e, consumed)) => {
            assert!(m > z, "C01.deliverable_packet_is_delivered");
            assert!(*consumed == gse_len + 2, "C10.rejected_consumes_own_length");
            let _ = e;
            assert!(count_ptr(&d.memory, sp) == 1, "C08.buffer_in_exactly_one_place");
            kani::cover!(true, "rejected_oversize");
        }
        _ => assert!(false, "C01.complete_yields_completed_or_error"),
    }
    core::mem::forget(r);
    core::mem::forget(d);
}

/// Open context for the packet's fragment id with `p` bytes already stored (one of them
/// symbolic at position q), storage of `z` bytes, broadcast label, no extension.
fn open_context(p: usize, z: usize, fid: u8, total_len: u16, ptype: u16, q: usize, y: u8) -> (RefMem<1>, *const u8) {
    let mut mem = <RefMem<1> as GseDecapMemory>::new(1, 0, 0, 0);
    mem.mode = TakeMode::Match;
    mem.slot_hint = Some(0);
    let mut stor = boxed_zeros(z);
    if q < p {
        stor[q] = y;
    }
    let sp = stor.as_ptr();
    let ctx = DecapContext::new(Label::Broadcast, ptype, fid, total_len, p as u16, false, Vec::new());
    mem.slots[0] = Some((ctx, stor));
    (mem, sp)
}

/// Intermediate packet, GSE length 2..=4095, appended at any offset of any storage.
#[kani::proof]
#[kani::unwind(8)]
#[kani::stub(dvb_gse_rust::gse_decap::read_gse_header, crate::dmodels::hdr_intermediate)]
pub fn intermediate_lattice() {
    intermediate_body(FR);
}

/// Same with storage buffers up to 70000 bytes and any 16-bit offset already stored: the
/// region where the context's 16-bit byte counter could wrap.
#[kani::proof]
#[kani::unwind(8)]
#[kani::stub(dvb_gse_rust::gse_decap::read_gse_header, crate::dmodels::hdr_intermediate)]
pub fn intermediate_lattice_big_storage() {
    intermediate_body(BIG);
}

fn intermediate_body(zmax: usize) {
    let len = any_len(if zmax > FR { BIG } else { FR });
    let gse_len = any_len(4095);
    kani::assume(gse_len >= 2 && gse_len + 2 <= len);
    let mut buf = zeros(len);
    put16(&mut buf, 0, spec_encode(Kind::Intermediate, LT::ReUse, gse_len as u16));
    let fid: u8 = kani::any();
    buf[2] = fid;
    let m = gse_len - 1;
    let i = any_len(4095);
    let x: u8 = kani::any();
    kani::assume(x != 0);
    if i < m {
        buf[3 + i] = x;
    }
    let z = any_len(zmax);
    let p = any_len(if zmax > 65535 { 65535 } else { zmax });
    kani::assume(p <= z);
    let q = any_len(zmax);
    let y: u8 = kani::any();
    kani::assume(y != 0);
    let total_len: u16 = kani::any();
    let (mem, sp) = open_context(p, z, fid, total_len, kani::any(), q, y);
    let mut d = Decapsulator::new(mem, ConstCrc(0), TestMgr);
    let r = d.decap(&buf[..]);
    match &r {
        Ok((DecapStatus::FragmentedPkt(_), consumed)) => {
            assert!(p + m <= z, "C03.append_only_if_it_fits");
            assert!(*consumed == gse_len + 2, "C10.consumes_own_length");
            match &d.memory.slots[0] {
                Some((c, b)) => {
                    assert!(c.pdu_len as usize == p + m, "C03.append_advances_only_the_offset");
                    assert!(b.as_ptr() == sp, "C03.append_keeps_the_buffer");
                    if i < m {
                        assert!(b[p + i] == x, "C03.append_copies_payload_at_offset");
                        kani::cover!(i > 4000 && p > 500, "deep_position");
                    }
                    if q < p {
                        assert!(b[q] == y, "C03.append_leaves_other_bytes");
                    }
                    let j = any_len(zmax);
                    if j < z && !(q < p && j == q) && !(i < m && j == p + i) {
                        assert!(b[j] == 0, "C03.append_leaves_other_bytes");
                    }
                }
                None => assert!(false, "C03.append_keeps_the_context"),
            }
            kani::cover!(m == 4094, "largest_intermediate_packet");
        }
        Err((_, consumed)) => {
            // must accept while it fits and the announced total length is not exceeded (broadcast: no label bytes)
            assert!(p + m > z || p + m + 2 > total_len as usize, "C02.fitting_intermediate_is_accepted");
            assert!(*consumed == gse_len + 2, "C10.rejected_consumes_own_length");
            assert!(d.memory.slots[0].is_none() && count_ptr(&d.memory, sp) == 1, "C08.buffer_in_exactly_one_place");
            kani::cover!(p + m > z, "rejected_oversize");
            kani::cover!(zmax <= FR || p + m > 65535, "counter_would_wrap");
            kani::cover!(zmax <= FR || len > 60000, "long_frame");
        }
        _ => assert!(false, "C03.intermediate_yields_fragmented_or_error"),
    }
    core::mem::forget(r);
    core::mem::forget(d);
}

/// End packet, GSE length 5..=4095: delivered iff it fits, the total length matches and the
/// trailer equals the calculator's value; delivered bytes = stored prefix ++ payload.
#[kani::proof]
#[kani::unwind(8)]
#[kani::stub(dvb_gse_rust::gse_decap::read_gse_header, crate::dmodels::hdr_end)]
pub fn end_lattice() {
    end_body(FR);
}

/// Same with storage buffers up to 70000 bytes and any 16-bit offset already stored.
#[kani::proof]
#[kani::unwind(8)]
#[kani::stub(dvb_gse_rust::gse_decap::read_gse_header, crate::dmodels::hdr_end)]
pub fn end_lattice_big_storage() {
    end_body(BIG);
}

fn end_body(zmax: usize) {
    let len = any_len(if zmax > FR { BIG } else { FR });
    let gse_len = any_len(4095);
    kani::assume(gse_len >= 5 && gse_len + 2 <= len);
    let mut buf = zeros(len);
    put16(&mut buf, 0, spec_encode(Kind::End, LT::ReUse, gse_len as u16));
    let fid: u8 = kani::any();
    buf[2] = fid;
    let m = gse_len - 5;
    let i = any_len(4095);
    let x: u8 = kani::any();
    kani::assume(x != 0);
    if i < m {
        buf[3 + i] = x;
    }
    let crc: u32 = kani::any();
    let trailer: u32 = kani::any();
    buf[3 + m] = (trailer >> 24) as u8;
    buf[4 + m] = (trailer >> 16) as u8;
    buf[5 + m] = (trailer >> 8) as u8;
    buf[6 + m] = trailer as u8;
    let z = any_len(zmax);
    let p = any_len(if zmax > 65535 { 65535 } else { zmax });
    kani::assume(p <= z);
    let q = any_len(zmax);
    let y: u8 = kani::any();
    kani::assume(y != 0);
    let total_len: u16 = kani::any();
    let ptype: u16 = kani::any();
    let (mem, sp) = open_context(p, z, fid, total_len, ptype, q, y);
    let mut d = Decapsulator::new(mem, ConstCrc(crc), TestMgr);
    let r = d.decap(&buf[..]);
    let fits = p + m <= z;
    let len_ok = total_len as usize == p + m + 2;
    match &r {
        Ok((DecapStatus::CompletedPkt(out, md), consumed)) => {
            assert!(fits && len_ok && crc == trailer, "C03.delivery_only_if_total_length_matches");
            assert!(*consumed == gse_len + 2, "C10.consumes_own_length");
            assert!(md.pdu_len() == p + m && md.protocol_type() == ptype, "C03.delivered_length");
            assert!(out.as_ptr() == sp, "C03.delivers_the_reassembly_buffer");
            if i < m {
                assert!(out[p + i] == x, "C03.delivered_suffix_is_this_payload");
                kani::cover!(i > 4000 && p > 500, "deep_position");
            }
            if q < p {
                assert!(out[q] == y, "C03.delivered_prefix_is_earlier_fragments");
            }
            kani::cover!(m == 4090, "largest_end_packet");
            kani::cover!(p + m == z, "storage_exactly_pdu_length");
        }
        Err((_, consumed)) => {
            assert!(!(fits && len_ok && crc == trailer), "C02.verified_end_fragment_is_delivered");
            assert!(*consumed == gse_len + 2, "C10.rejected_consumes_own_length");
            assert!(d.memory.slots[0].is_none() && count_ptr(&d.memory, sp) == 1, "C08.buffer_in_exactly_one_place");
            kani::cover!(fits && len_ok, "rejected_crc");
            kani::cover!(!fits, "rejected_oversize");
            kani::cover!(zmax <= FR || (fits && p + m + 2 > 65535), "length_beyond_16_bits_rejected");
        }
        _ => assert!(false, "C03.end_yields_completed_or_error"),
    }
    core::mem::forget(r);
    core::mem::forget(d);
}

/// First fragment (broadcast label, no extension), GSE length 5..=4095, stored at offset 0
/// of a free buffer of any size, replacing nothing (empty slot).
#[kani::proof]
#[kani::unwind(8)]
#[kani::stub(dvb_gse_rust::gse_decap::read_gse_header, crate::dmodels::hdr_first_bc)]
#[kani::stub(dvb_gse_rust::gse_decap::iterate_over_extension_header, crate::dmodels::walker_unreachable)]
pub fn first_lattice() {
    first_lattice_body(FR);
}

/// Same with frames and storage buffers up to 70000 bytes.
#[kani::proof]
#[kani::unwind(8)]
#[kani::stub(dvb_gse_rust::gse_decap::read_gse_header, crate::dmodels::hdr_first_bc)]
#[kani::stub(dvb_gse_rust::gse_decap::iterate_over_extension_header, crate::dmodels::walker_unreachable)]
pub fn first_lattice_big() {
    first_lattice_body(BIG);
}

fn first_lattice_body(zmax: usize) {
    let len = any_len(zmax);
    let gse_len = any_len(4095);
    kani::assume(gse_len >= 5 && gse_len + 2 <= len);
    let mut buf = zeros(len);
    put16(&mut buf, 0, spec_encode(Kind::First, LT::Broadcast, gse_len as u16));
    let fid: u8 = kani::any();
    buf[2] = fid;
    let total_len: u16 = kani::any();
    put16(&mut buf, 3, total_len);
    let ptype: u16 = kani::any();
    kani::assume(ptype >= 0x600);
    put16(&mut buf, 5, ptype);
    let m = gse_len - 5;
    // sender-produced: total length = 2 + PDU length (broadcast label) with PDU length > carried
    kani::assume(total_len as usize > m + 2);
    let i = any_len(4095);
    let x: u8 = kani::any();
    kani::assume(x != 0);
    if i < m {
        buf[7 + i] = x;
    }
    let z = any_len(zmax);
    let mut mem = <RefMem<1> as GseDecapMemory>::new(1, 0, 0, 0);
    mem.slot_hint = Some(0);
    let stor = boxed_zeros(z);
    let sp = stor.as_ptr();
    mem.free[0] = Some(stor);
    let mut d = Decapsulator::new(mem, ConstCrc(0), TestMgr);
    let r = d.decap(&buf[..]);
    match &r {
        Ok((DecapStatus::FragmentedPkt(md), consumed)) => {
            assert!(m <= z, "C02.first_accepted_only_if_well_formed_and_storable");
            assert!(*consumed == gse_len + 2, "C02.consumes_reported_length");
            assert!(md.protocol_type() == ptype, "C02.fragment_status_carries_protocol_type");
            match &d.memory.slots[0] {
                Some((c, b)) => {
                    assert!(c.pdu_len as usize == m && c.total_len == total_len && c.frag_id == fid && c.protocol_type == ptype,
                            "C03.first_fragment_starts_a_fresh_context");
                    assert!(b.as_ptr() == sp, "C08.start_takes_a_free_buffer");
                    if i < m {
                        assert!(b[i] == x, "C03.first_payload_stored_at_offset_0");
                        kani::cover!(i > 4000, "deep_position");
                    }
                    let j = any_len(zmax);
                    if j < z && j != i {
                        assert!(b[j] == 0, "C03.append_leaves_other_bytes");
                    }
                }
                None => assert!(false, "C02.first_fragment_opens_a_context"),
            }
            kani::cover!(m == 4090, "largest_first_packet");
        }
        Err((e, consumed)) => {
            assert!(m > z, "C02.storable_first_fragment_is_accepted");
            assert!(*consumed == gse_len + 2, "C10.rejected_consumes_own_length");
            let _ = e;
            assert!(d.memory.slots[0].is_none() && count_ptr(&d.memory, sp) == 1, "C08.buffer_in_exactly_one_place");
            kani::cover!(true, "rejected_oversize");
        }
        _ => assert!(false, "C02.first_yields_fragmented_or_error"),
    }
    core::mem::forget(r);
    core::mem::forget(d);
}

//! Receiver lemmas: what `decap` does with EVERY byte string that parses (spec.rs) to a
//! packet description D of one kind, from EVERY receiver state of a concrete heap shape,
//! stated in terms of D and the pre-state only.  The buffer always carries an arbitrary
//! tail after the packet, so every conclusion here is independent of what follows the
//! packet in a frame (C10).  Shared by C01/C02/C03/C04/C07/C08/C10/C12/C13/C16/C19/C20.
use crate::dmodels::TakeMode::{Any, Match, Mismatch};
use crate::dmodels::*;
use crate::extm::*;
use crate::models::*;
use crate::spec::*;
use dvb_gse_rust::gse_decap::{DecapError, DecapMemoryError, DecapStatus, Decapsulator, GseDecapMemory};
use dvb_gse_rust::label::Label;

pub const Z: usize = 6;
#[cfg(not(feature = "deep"))]
pub const NB: usize = 16;
#[cfg(feature = "deep")]
pub const NB: usize = 24;

pub fn label_len_of(l: &Label) -> usize {
    match l {
        Label::SixBytesLabel(_) => 6,
        Label::ThreeBytesLabel(_) => 3,
        _ => 0,
    }
}

/// A buffer that went out in an error value.
pub fn buf_in_error(e: &DecapError) -> Option<*const u8> {
    match e {
        DecapError::ErrorMemory(DecapMemoryError::StorageOverflow(b)) => Some(b.as_ptr()),
        DecapError::ErrorMemory(DecapMemoryError::BufferTooSmall(b)) => Some(b.as_ptr()),
        _ => None,
    }
}

/// End fragment on fragment id `fid` while slot `k` of an S-slot memory holds a context
/// (Match: for that id; Mismatch: for another id aliasing to the slot) or is empty.
pub fn end_lemma<const S: usize>(sh: &Shape, mode: TakeMode, k: usize) {
    let (mut mem, g) = build_ref_ghost::<S, Z>(sh);
    mem.mode = mode;
    mem.slot_hint = Some(k);
    let bufs_before = count_bufs(&mem);
    let pi = any_len(Z - 1);
    let li = any_len(5);
    let rec = RecCrc::new(kani::any(), pi, li);
    let last = any_rx_label();
    let mut d = Decapsulator::new(mem, &rec, TestMgr);
    d.verif_set_last_label(last);
    let buf: [u8; NB] = kani::any();
    let len = any_len(NB);
    // a well-formed End packet wholly inside the buffer; whatever follows is arbitrary
    let lay = layout(be16(&buf, 0));
    kani::assume(lay.is_some());
    let l = lay.unwrap();
    kani::assume(l.kind == Kind::End && l.pkt_len <= len);
    let m = l.data_end - l.data_off;
    let trailer = be32(&buf, l.crc_off.unwrap());
    let r = d.decap(&buf[..len]);
    // ---- packets never touch another slot (C07) nor the remembered label
    let mut j = 0;
    while j < S {
        if j != k {
            assert!(slot_unchanged(&d.memory, &g, j), "C07.other_slot_untouched");
        }
        j += 1;
    }
    assert!(opt_label_eq(&d.verif_last_label(), &last), "C04.continuation_leaves_label_memory");
    match (&g.slot[k], mode) {
        (Some((cg, bg)), Match) => {
            let p = cg.pdu_len as usize;
            let fits = p + m <= Z;
            let lab_len = if cg.reuse { 0 } else { label_len_of(&cg.label) };
            let len_ok = cg.total_len as usize == p + m + 2 + lab_len;
            match &r {
                Ok((DecapStatus::CompletedPkt(out, md), consumed)) => {
                    assert!(*consumed == l.pkt_len, "C10.consumes_own_length");
                    assert!(fits, "C03.delivery_only_if_it_fits");
                    assert!(len_ok, "C03.delivery_only_if_total_length_matches");
                    // the calculator saw exactly the reassembled bytes and the first fragment's fields
                    assert!(rec.calls.get() >= 1, "C03.delivery_only_after_crc_computation");
                    assert!(rec.ret == trailer, "C03.delivery_only_if_crc_matches");
                    assert!(rec.pdu_len.get() == p + m, "C12.receiver_crc_over_reassembled_pdu");
                    assert!(rec.pt.get() == cg.ptype, "C12.receiver_crc_protocol_type");
                    assert!(rec.tl.get() == cg.total_len, "C12.receiver_crc_total_length");
                    assert!(rec.lab_len.get() == lab_len, "C12.receiver_crc_label_empty_iff_reuse");
                    if li < lab_len {
                        assert!(rec.lab_at.get() == Some(label_byte(&cg.label, li)), "C12.receiver_crc_label_bytes");
                    }
                    // delivered bytes: old prefix ++ this packet's payload, in the slot's own buffer
                    assert!(out.as_ptr() == bg.ptr && out.len() == bg.len, "C03.delivers_the_reassembly_buffer");
                    assert!(md.pdu_len() == p + m, "C03.delivered_length");
                    if pi < p {
                        assert!(out[pi] == bg.bytes[pi], "C03.delivered_prefix_is_earlier_fragments");
                        assert!(rec.pdu_at.get() == Some(bg.bytes[pi]), "C12.receiver_crc_pdu_bytes");
                    } else if pi < p + m {
                        assert!(out[pi] == buf[l.data_off + (pi - p)], "C03.delivered_suffix_is_this_payload");
                        assert!(rec.pdu_at.get() == Some(buf[l.data_off + (pi - p)]), "C12.receiver_crc_pdu_bytes");
                    }
                    assert!(label_eq(&md.label(), &cg.label), "C03.delivered_label_is_first_fragments");
                    assert!(md.protocol_type() == cg.ptype, "C03.delivered_protocol_type_is_first_fragments");
                    assert!(md.extensions().len() == cg.n_ext, "C13.delivered_extensions_are_first_fragments");
                    // the context is gone, the buffer is with the caller only (C08)
                    assert!(d.memory.slots[k].is_none(), "C07.delivered_exactly_once");
                    assert!(count_ptr(&d.memory, bg.ptr) == 0, "C08.delivered_buffer_not_kept");
                    assert!(count_bufs(&d.memory) + 1 == bufs_before, "C08.buffers_conserved");
                    kani::cover!(p > 0 && m > 0, "delivered_two_parts");
                    kani::cover!(cg.reuse, "delivered_reuse_first_fragment");
                }
                Ok(_) => assert!(false, "C03.end_yields_completed_or_error"),
                Err((e, consumed)) => {
                    assert!(*consumed == l.pkt_len, "C10.rejected_consumes_own_length");
                    assert!(!fits || !len_ok || rec.ret != trailer || matches!(e, DecapError::ErrorMemory(_)),
                            "C02.verified_end_fragment_is_delivered");
                    // the train is over; its buffer went back to the free list, or to the caller
                    assert!(d.memory.slots[k].is_none(), "C03.failed_end_drops_context");
                    let outside = buf_in_error(e);
                    assert!(count_ptr(&d.memory, bg.ptr) + if outside == Some(bg.ptr) { 1 } else { 0 } == 1,
                            "C08.buffer_in_exactly_one_place");
                    assert!(count_bufs(&d.memory) + if outside.is_some() { 1 } else { 0 } == bufs_before, "C08.buffers_conserved");
                    kani::cover!(!fits, "rejected_oversize");
                    kani::cover!(fits && !len_ok, "rejected_total_length");
                    kani::cover!(fits && len_ok, "rejected_crc");
                    kani::cover!(outside.is_some(), "buffer_returned_in_error");
                }
            }
        }
        _ => {
            // no context for this id (empty slot, or a context of another id aliasing to it)
            match &r {
                Err((_, consumed)) => {
                    assert!(*consumed == l.pkt_len, "C10.unknown_id_consumes_own_length");
                }
                _ => assert!(false, "C03.unknown_id_is_rejected"),
            }
            assert!(slot_unchanged(&d.memory, &g, k), "C07.stray_packet_leaves_reassembly_untouched");
            assert!(count_bufs(&d.memory) == bufs_before, "C08.buffers_conserved");
            kani::cover!(g.slot[k].is_some(), "aliasing_id");
            kani::cover!(g.slot[k].is_none(), "empty_slot");
        }
    }
    core::mem::forget(r);
    core::mem::forget(d);
}

/// Intermediate fragment.
pub fn inter_lemma<const S: usize>(sh: &Shape, mode: TakeMode, k: usize) {
    let (mut mem, g) = build_ref_ghost::<S, Z>(sh);
    mem.mode = mode;
    mem.slot_hint = Some(k);
    let bufs_before = count_bufs(&mem);
    let rec = RecCrc::new(kani::any(), 0, 0);
    let last = any_rx_label();
    let mut d = Decapsulator::new(mem, &rec, TestMgr);
    d.verif_set_last_label(last);
    let buf: [u8; NB] = kani::any();
    let len = any_len(NB);
    let lay = layout(be16(&buf, 0));
    kani::assume(lay.is_some());
    let l = lay.unwrap();
    kani::assume(l.kind == Kind::Intermediate && l.pkt_len <= len);
    let m = l.data_end - l.data_off;
    // an intermediate packet produced by a sender carries at least one payload byte
    kani::assume(m >= 1);
    let r = d.decap(&buf[..len]);
    let mut j = 0;
    while j < S {
        if j != k {
            assert!(slot_unchanged(&d.memory, &g, j), "C07.other_slot_untouched");
        }
        j += 1;
    }
    assert!(opt_label_eq(&d.verif_last_label(), &last), "C04.continuation_leaves_label_memory");
    match (&g.slot[k], mode) {
        (Some((cg, bg)), Match) => {
            let p = cg.pdu_len as usize;
            let fits = p + m <= Z;
            match &r {
                Ok((DecapStatus::FragmentedPkt(md), consumed)) => {
                    assert!(*consumed == l.pkt_len, "C10.consumes_own_length");
                    assert!(fits, "C03.append_only_if_it_fits");
                    assert!(label_eq(&md.label(), &cg.label), "C02.fragment_status_carries_label");
                    assert!(md.protocol_type() == cg.ptype, "C02.fragment_status_carries_protocol_type");
                    assert!(md.extensions().len() == cg.n_ext, "C13.fragment_status_carries_extensions");
                    // the context advanced by exactly this payload, appended at the old offset
                    match &d.memory.slots[k] {
                        Some((c2, b2)) => {
                            let adv = CtxG { pdu_len: (p + m) as u16, ..*cg };
                            assert!(ctx_matches(c2, &adv), "C03.append_advances_only_the_offset");
                            assert!(b2.as_ptr() == bg.ptr && b2.len() == bg.len, "C03.append_keeps_the_buffer");
                            let i = any_len(Z - 1);
                            if i < p || i >= p + m {
                                assert!(b2[i] == bg.bytes[i], "C03.append_leaves_other_bytes");
                            } else {
                                assert!(b2[i] == buf[l.data_off + (i - p)], "C03.append_copies_payload_at_offset");
                                kani::cover!(i > p, "payload_index_inside");
                            }
                        }
                        None => assert!(false, "C03.append_keeps_the_context"),
                    }
                    assert!(count_bufs(&d.memory) == bufs_before, "C08.buffers_conserved");
                    kani::cover!(p > 0, "appended_after_prefix");
                }
                Ok(_) => assert!(false, "C03.intermediate_yields_fragmented_or_error"),
                Err((e, consumed)) => {
                    assert!(*consumed == l.pkt_len, "C10.rejected_consumes_own_length");
                    // a fragment of a valid train (it fits, and the announced total length is not yet
                    // exceeded) must be accepted; anything else may be rejected — but then the train is over
                    let lab_len = if cg.reuse { 0 } else { label_len_of(&cg.label) };
                    let within_total = p + m + 2 + lab_len <= cg.total_len as usize;
                    assert!(!fits || !within_total, "C02.fitting_intermediate_is_accepted");
                    assert!(d.memory.slots[k].is_none(), "C03.rejected_fragment_drops_context");
                    let outside = buf_in_error(e);
                    assert!(count_ptr(&d.memory, bg.ptr) + if outside == Some(bg.ptr) { 1 } else { 0 } == 1,
                            "C08.buffer_in_exactly_one_place");
                    assert!(count_bufs(&d.memory) + if outside.is_some() { 1 } else { 0 } == bufs_before, "C08.buffers_conserved");
                    kani::cover!(outside.is_some(), "buffer_returned_in_error");
                    kani::cover!(outside.is_none(), "buffer_back_in_free_list");
                }
            }
        }
        _ => {
            match &r {
                Err((_, consumed)) => {
                    assert!(*consumed == l.pkt_len, "C10.unknown_id_consumes_own_length");
                }
                _ => assert!(false, "C03.unknown_id_is_rejected"),
            }
            assert!(slot_unchanged(&d.memory, &g, k), "C07.stray_packet_leaves_reassembly_untouched");
            assert!(count_bufs(&d.memory) == bufs_before, "C08.buffers_conserved");
            kani::cover!(g.slot[k].is_some(), "aliasing_id");
            kani::cover!(g.slot[k].is_none(), "empty_slot");
        }
    }
    core::mem::forget(r);
    core::mem::forget(d);
}

/// The label a start / complete packet denotes, given the receiver's remembered label:
/// explicit labels denote themselves, broadcast denotes broadcast, re-use denotes the
/// remembered label (None = unresolvable).
pub fn resolve(l: &Layout, buf: &[u8], last: &Option<Label>) -> Option<Label> {
    match l.lt {
        LT::Six => Some(Label::SixBytesLabel([
            buf[l.label_off], buf[l.label_off + 1], buf[l.label_off + 2],
            buf[l.label_off + 3], buf[l.label_off + 4], buf[l.label_off + 5],
        ])),
        LT::Three => Some(Label::ThreeBytesLabel([buf[l.label_off], buf[l.label_off + 1], buf[l.label_off + 2]])),
        LT::Broadcast => Some(Label::Broadcast),
        LT::ReUse => *last,
    }
}

/// Remembered label after an ACCEPTED start / complete packet.
pub fn label_memory_after(l: &Layout, resolved: &Label, last: &Option<Label>) -> Option<Label> {
    match l.lt {
        LT::Six | LT::Three => Some(*resolved),
        LT::Broadcast => None,
        LT::ReUse => *last,
    }
}

/// After a REJECTED start / complete packet the memory must not keep pointing at an older
/// label (a later re-use packet would be attributed to it): empty, or this packet's own label.
pub fn label_memory_safe_after_reject(after: &Option<Label>, l: &Layout, buf: &[u8]) -> bool {
    match after {
        None => true,
        Some(x) => match resolve(l, buf, &None) {
            Some(own) => label_eq(x, &own) && (l.lt == LT::Six || l.lt == LT::Three),
            None => false,
        },
    }
}

/// Ghost for C04's receiver clause: `prev` = label carried by the nearest preceding start /
/// complete packet of the frame (None after a reset or a broadcast packet).  Invariant R:
/// the remembered label is None or equals prev.
pub fn any_prev_for(last: &Option<Label>) -> Option<Label> {
    match last {
        Some(_) => *last,
        None => any_label_memory(),
    }
}

/// After one start / complete packet: a delivered / accepted packet reports the label it
/// carries (its own, or prev for a re-use marker); R is re-established with the new prev.
pub fn check_label_ghost(
    l: &Layout,
    buf: &[u8],
    prev: &Option<Label>,
    after: &Option<Label>,
    r: &Result<(DecapStatus, usize), (DecapError, usize)>,
) {
    let own = resolve(l, buf, &None);
    let carried: Option<Label> = match l.lt {
        LT::ReUse => *prev,
        _ => own,
    };
    let prev_after: Option<Label> = match l.lt {
        LT::Six | LT::Three => own,
        LT::Broadcast => None,
        LT::ReUse => *prev,
    };
    match r {
        Ok((DecapStatus::CompletedPkt(_, md), _)) | Ok((DecapStatus::FragmentedPkt(md), _)) => {
            assert!(carried.is_some(), "C04.reuse_resolves_only_to_preceding_label");
            assert!(label_eq(&md.label(), &carried.unwrap()), "C04.reuse_resolves_only_to_preceding_label");
        }
        _ => {}
    }
    let r_holds = match after {
        None => true,
        Some(_) => opt_label_eq(after, &prev_after),
    };
    assert!(r_holds, "C04.receiver_memory_is_none_or_preceding_label");
}

pub fn is_free_buf(g: &Ghost, p: *const u8) -> bool {
    let mut q = 0;
    let mut hit = false;
    while q < g.nfree {
        if g.free[q].ptr == p {
            hit = true;
        }
        q += 1;
    }
    hit
}

/// Complete packet without extension header (type field >= 0x600).
pub fn complete_lemma<const S: usize>(sh: &Shape) {
    let (mem, g) = build_ref_ghost::<S, Z>(sh);
    let bufs_before = count_bufs(&mem);
    let rec = RecCrc::new(kani::any(), 0, 0);
    let last = any_rx_label();
    let mut d = Decapsulator::new(mem, &rec, TestMgr);
    d.verif_set_last_label(last);
    let buf: [u8; NB] = kani::any();
    let len = any_len(NB);
    let lay = layout(be16(&buf, 0));
    kani::assume(lay.is_some());
    let l = lay.unwrap();
    kani::assume(l.kind == Kind::Complete && l.pkt_len <= len);
    let ptype = be16(&buf, l.ptype_off.unwrap());
    kani::assume(ptype >= 0x600);
    let m = l.data_end - l.data_off;
    let resolved = resolve(&l, &buf, &last);
    let zero_label = match &resolved {
        Some(x) => l.lt == LT::Six && is_zero6(x),
        None => false,
    };
    let prev = any_prev_for(&last);
    let r = d.decap(&buf[..len]);
    let after = d.verif_last_label();
    check_label_ghost(&l, &buf, &prev, &after, &r);
    let mut j = 0;
    while j < S {
        assert!(slot_unchanged(&d.memory, &g, j), "C07.complete_packet_leaves_reassemblies_untouched");
        j += 1;
    }
    match &r {
        Ok((DecapStatus::CompletedPkt(out, md), consumed)) => {
            assert!(*consumed == l.pkt_len, "C01.consumes_reported_length");
            assert!(!zero_label, "C01.zero_label_rejected");
            assert!(g.nfree > 0 && m <= Z, "C01.delivery_needs_storage");
            assert!(resolved.is_some(), "C04.reuse_without_memory_rejected");
            let lab = resolved.unwrap();
            assert!(label_eq(&md.label(), &lab), "C04.label_is_own_or_remembered");
            assert!(md.protocol_type() == ptype, "C01.protocol_type");
            assert!(md.pdu_len() == m, "C01.pdu_length");
            assert!(md.extensions().len() == 0, "C13.no_extension_without_extension_header");
            assert!(is_free_buf(&g, out.as_ptr()), "C08.delivered_in_a_provisioned_buffer");
            let i = any_len(Z - 1);
            if i < m {
                assert!(out[i] == buf[l.data_off + i], "C01.pdu_bytes");
                kani::cover!(i > 0, "payload_index_inside");
            }
            assert!(opt_label_eq(&after, &label_memory_after(&l, &lab, &last)), "C04.label_memory_update");
            assert!(count_ptr(&d.memory, out.as_ptr()) == 0, "C08.delivered_buffer_not_kept");
            assert!(count_bufs(&d.memory) + 1 == bufs_before, "C08.buffers_conserved");
            kani::cover!(l.lt == LT::ReUse, "delivered_reuse");
            kani::cover!(l.lt == LT::Six, "delivered_6b");
            kani::cover!(m == 0, "delivered_empty_pdu");
        }
        Ok(_) => assert!(false, "C01.complete_yields_completed_or_error"),
        Err((e, consumed)) => {
            // rejected for lack of storage or an unresolvable re-use label: exactly its own length
            // (a zero 6-byte label is never produced by a sender: only the C05 bounds apply there)
            assert!(*consumed == l.pkt_len || (zero_label && *consumed == len), "C10.rejected_consumes_own_length");
            assert!(zero_label || g.nfree == 0 || m > Z || resolved.is_none() || matches!(e, DecapError::ErrorMemory(_)),
                    "C01.deliverable_packet_is_delivered");
            assert!(label_memory_safe_after_reject(&after, &l, &buf), "C04.rejected_packet_does_not_keep_older_label");
            let outside = buf_in_error(e);
            assert!(count_bufs(&d.memory) + if outside.is_some() { 1 } else { 0 } == bufs_before, "C08.buffers_conserved");
            kani::cover!(zero_label, "rejected_zero_label");
            kani::cover!(!zero_label && g.nfree > 0 && m > Z, "rejected_oversize");
            kani::cover!(!zero_label && g.nfree > 0 && m <= Z && resolved.is_none(), "rejected_unresolvable_reuse");
            kani::cover!(g.nfree == 0, "rejected_no_storage");
        }
    }
    core::mem::forget(r);
    core::mem::forget(d);
}

/// First fragment without extension header, claiming slot `k`.
pub fn first_lemma<const S: usize>(sh: &Shape, k: usize) {
    let (mut mem, g) = build_ref_ghost::<S, Z>(sh);
    mem.slot_hint = Some(k);
    let bufs_before = count_bufs(&mem);
    let rec = RecCrc::new(kani::any(), 0, 0);
    let last = any_rx_label();
    let mut d = Decapsulator::new(mem, &rec, TestMgr);
    d.verif_set_last_label(last);
    let buf: [u8; NB] = kani::any();
    let len = any_len(NB);
    let lay = layout(be16(&buf, 0));
    kani::assume(lay.is_some());
    let l = lay.unwrap();
    kani::assume(l.kind == Kind::First && l.pkt_len <= len);
    let ptype = be16(&buf, l.ptype_off.unwrap());
    kani::assume(ptype >= 0x600);
    let fid = buf[l.frag_id_off.unwrap()];
    let total_len = be16(&buf, l.total_len_off.unwrap());
    let m = l.data_end - l.data_off;
    let resolved = resolve(&l, &buf, &last);
    let zero_label = match &resolved {
        Some(x) => l.lt == LT::Six && is_zero6(x),
        None => false,
    };
    // total length must leave room for more than this fragment (a sender's first fragment
    // never carries the whole PDU): otherwise the packet is malformed.  `tl_ok` is what the
    // receiver must at least enforce; `tl_consistent` is what every sender-produced first
    // fragment satisfies (total = 2 + written label + PDU length, PDU length > carried) and
    // is the only case in which acceptance is REQUIRED.
    let tl_ok = total_len as usize > m;
    let tl_consistent = total_len as usize > m + 2 + l.label_len;
    let has_buffer = g.slot[k].is_some() || g.nfree > 0;
    let prev = any_prev_for(&last);
    let r = d.decap(&buf[..len]);
    let after = d.verif_last_label();
    check_label_ghost(&l, &buf, &prev, &after, &r);
    let mut j = 0;
    while j < S {
        if j != k {
            assert!(slot_unchanged(&d.memory, &g, j), "C07.first_fragment_touches_only_its_slot");
        }
        j += 1;
    }
    match &r {
        Ok((DecapStatus::FragmentedPkt(md), consumed)) => {
            assert!(*consumed == l.pkt_len, "C02.consumes_reported_length");
            assert!(!zero_label && tl_ok && has_buffer && m <= Z, "C02.first_accepted_only_if_well_formed_and_storable");
            assert!(resolved.is_some(), "C04.reuse_without_memory_rejected");
            let lab = resolved.unwrap();
            assert!(label_eq(&md.label(), &lab), "C04.label_is_own_or_remembered");
            assert!(md.protocol_type() == ptype, "C02.fragment_status_carries_protocol_type");
            assert!(md.extensions().len() == 0, "C13.no_extension_without_extension_header");
            assert!(opt_label_eq(&after, &label_memory_after(&l, &lab, &last)), "C04.label_memory_update");
            // the slot now holds exactly this first fragment's context (most recent first fragment wins)
            match &d.memory.slots[k] {
                Some((c, b)) => {
                    let exp = CtxG { label: lab, ptype, frag_id: fid, total_len, pdu_len: m as u16, reuse: l.lt == LT::ReUse, n_ext: 0 };
                    assert!(ctx_matches(c, &exp), "C03.first_fragment_starts_a_fresh_context");
                    match &g.slot[k] {
                        Some((_, bg)) => assert!(b.as_ptr() == bg.ptr, "C08.restart_reuses_the_slot_buffer"),
                        None => assert!(is_free_buf(&g, b.as_ptr()), "C08.start_takes_a_free_buffer"),
                    }
                    let i = any_len(Z - 1);
                    if i < m {
                        assert!(b[i] == buf[l.data_off + i], "C03.first_payload_stored_at_offset_0");
                        kani::cover!(i > 0, "payload_index_inside");
                    }
                }
                None => assert!(false, "C02.first_fragment_opens_a_context"),
            }
            assert!(count_bufs(&d.memory) == bufs_before, "C08.buffers_conserved");
            kani::cover!(g.slot[k].is_some(), "restart_on_occupied_slot");
            kani::cover!(l.lt == LT::ReUse, "accepted_reuse");
            kani::cover!(m == 0, "accepted_header_only");
        }
        Ok(_) => assert!(false, "C02.first_yields_fragmented_or_error"),
        Err((e, consumed)) => {
            assert!(zero_label || !tl_consistent || !has_buffer || m > Z || resolved.is_none() || matches!(e, DecapError::ErrorMemory(_)),
                    "C02.storable_first_fragment_is_accepted");
            if tl_consistent && !zero_label {
                assert!(*consumed == l.pkt_len, "C10.rejected_consumes_own_length");
            } else {
                assert!(*consumed == l.pkt_len || *consumed == len, "C05.consumed_le_buffer");
            }
            assert!(label_memory_safe_after_reject(&after, &l, &buf), "C04.rejected_packet_does_not_keep_older_label");
            let outside = buf_in_error(e);
            assert!(count_bufs(&d.memory) + if outside.is_some() { 1 } else { 0 } == bufs_before, "C08.buffers_conserved");
            if zero_label || resolved.is_none() || !tl_ok {
                // rejected before touching the memory: the slot's reassembly survives
                assert!(slot_unchanged(&d.memory, &g, k), "C07.rejected_first_fragment_leaves_slot");
            }
            kani::cover!(zero_label, "rejected_zero_label");
            kani::cover!(!zero_label && resolved.is_none(), "rejected_unresolvable_reuse");
            kani::cover!(!zero_label && resolved.is_some() && !tl_ok, "rejected_total_length");
            kani::cover!(!zero_label && resolved.is_some() && tl_consistent && has_buffer && m > Z, "rejected_oversize");
            kani::cover!(!has_buffer, "rejected_no_storage");
        }
    }
    core::mem::forget(r);
    core::mem::forget(d);
}

// shapes: (slots, occupancy, free buffers, extensions in saved contexts)
pub const S1_O: Shape = Shape { s: 1, occ: [true, false, false], free: 0, ext: 0 };
pub const S1_O1: Shape = Shape { s: 1, occ: [true, false, false], free: 1, ext: 0 };
pub const S1_OFULL: Shape = Shape { s: 1, occ: [true, false, false], free: 3, ext: 0 };
pub const S1_OX: Shape = Shape { s: 1, occ: [true, false, false], free: 1, ext: 1 };
pub const S1_E: Shape = Shape { s: 1, occ: [false, false, false], free: 1, ext: 0 };
pub const S1_E0: Shape = Shape { s: 1, occ: [false, false, false], free: 0, ext: 0 };
pub const S2_OO: Shape = Shape { s: 2, occ: [true, true, false], free: 1, ext: 0 };
pub const S2_OE: Shape = Shape { s: 2, occ: [true, false, false], free: 1, ext: 0 };

macro_rules! rx {
    ($name:ident, $stub:path, $unw:literal, $body:expr) => {
        #[kani::proof]
        #[kani::unwind($unw)]
        #[kani::stub(dvb_gse_rust::gse_decap::read_gse_header, $stub)]
        pub fn $name() {
            $body
        }
    };
}

rx!(end_match, crate::dmodels::hdr_end, 8, end_lemma::<1>(&S1_O1, Match, 0));
rx!(end_match_full, crate::dmodels::hdr_end, 8, end_lemma::<1>(&S1_OFULL, Match, 0));
rx!(end_match_ext, crate::dmodels::hdr_end, 8, end_lemma::<1>(&S1_OX, Match, 0));
rx!(end_mismatch, crate::dmodels::hdr_end, 8, end_lemma::<1>(&S1_O1, Mismatch, 0));
rx!(end_none, crate::dmodels::hdr_end, 8, end_lemma::<1>(&S1_E, Any, 0));
rx!(end_s2_match, crate::dmodels::hdr_end, 8, end_lemma::<2>(&S2_OO, Match, 1));
rx!(end_s2_mismatch, crate::dmodels::hdr_end, 8, end_lemma::<2>(&S2_OO, Mismatch, 0));
rx!(end_s2_none, crate::dmodels::hdr_end, 8, end_lemma::<2>(&S2_OE, Any, 1));
rx!(inter_match, crate::dmodels::hdr_intermediate, 8, inter_lemma::<1>(&S1_O1, Match, 0));
rx!(inter_match_full, crate::dmodels::hdr_intermediate, 8, inter_lemma::<1>(&S1_OFULL, Match, 0));
rx!(inter_match_ext, crate::dmodels::hdr_intermediate, 8, inter_lemma::<1>(&S1_OX, Match, 0));
rx!(inter_mismatch, crate::dmodels::hdr_intermediate, 8, inter_lemma::<1>(&S1_O1, Mismatch, 0));
rx!(inter_none, crate::dmodels::hdr_intermediate, 8, inter_lemma::<1>(&S1_E, Any, 0));
rx!(inter_s2_match, crate::dmodels::hdr_intermediate, 8, inter_lemma::<2>(&S2_OO, Match, 1));
rx!(inter_s2_mismatch, crate::dmodels::hdr_intermediate, 8, inter_lemma::<2>(&S2_OO, Mismatch, 0));
rx!(inter_s2_none, crate::dmodels::hdr_intermediate, 8, inter_lemma::<2>(&S2_OE, Any, 1));

macro_rules! rx_noext {
    ($name:ident, $stub:path, $unw:literal, $body:expr) => {
        #[kani::proof]
        #[kani::unwind($unw)]
        #[kani::stub(dvb_gse_rust::gse_decap::read_gse_header, $stub)]
        #[kani::stub(dvb_gse_rust::gse_decap::iterate_over_extension_header, crate::dmodels::walker_unreachable)]
        pub fn $name() {
            $body
        }
    };
}

pub const S1_E2: Shape = Shape { s: 1, occ: [false, false, false], free: 2, ext: 0 };
pub const S2_EE: Shape = Shape { s: 2, occ: [false, false, false], free: 1, ext: 0 };
rx_noext!(complete_free, crate::dmodels::hdr_complete, 8, complete_lemma::<1>(&S1_E2));
rx_noext!(complete_nofree, crate::dmodels::hdr_complete, 8, complete_lemma::<1>(&S1_O));
rx_noext!(complete_occ_full, crate::dmodels::hdr_complete, 8, complete_lemma::<1>(&S1_OFULL));
rx_noext!(complete_s2, crate::dmodels::hdr_complete, 8, complete_lemma::<2>(&S2_OO));
rx_noext!(first_empty, crate::dmodels::hdr_first, 8, first_lemma::<1>(&S1_E, 0));
rx_noext!(first_empty_nobuf, crate::dmodels::hdr_first, 8, first_lemma::<1>(&S1_E0, 0));
rx_noext!(first_occ, crate::dmodels::hdr_first, 8, first_lemma::<1>(&S1_O, 0));
rx_noext!(first_occ_ext, crate::dmodels::hdr_first, 8, first_lemma::<1>(&S1_OX, 0));
rx_noext!(first_s2_occ_slot, crate::dmodels::hdr_first, 8, first_lemma::<2>(&S2_OE, 0));
rx_noext!(first_s2_empty_slot, crate::dmodels::hdr_first, 8, first_lemma::<2>(&S2_OE, 1));

#[cfg(feature = "twins")]
#[kani::proof]
#[kani::unwind(8)]
#[kani::stub(dvb_gse_rust::gse_decap::read_gse_header, crate::dmodels::hdr_end)]
pub fn twin_end_match() {
    let (mut mem, _g) = build_ref_ghost::<1, Z>(&S1_O1);
    mem.mode = Match;
    let rec = RecCrc::new(kani::any(), 0, 0);
    let mut d = Decapsulator::new(mem, &rec, TestMgr);
    let buf: [u8; NB] = kani::any();
    let len = any_len(NB);
    let r = d.decap(&buf[..len]);
    if let Ok((DecapStatus::CompletedPkt(_, md), _)) = &r {
        if md.pdu_len() == 5 {
            assert!(false, "TWIN.reachable");
        }
    }
    core::mem::forget(r);
    core::mem::forget(d);
}

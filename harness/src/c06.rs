//! C06: every emitted packet is a well-formed, length-accurate GSE packet.
//! Byte tier: small symbolic PDUs / buffers, output parsed by spec.rs and compared field
//! by field (positions through symbolic indices).  Lattice tier: lengths 0..=70000.
use crate::models::*;
use crate::spec::*;
use dvb_gse_rust::gse_encap::{ContextFrag, EncapError, EncapMetadata, EncapStatus, Encapsulator};
use dvb_gse_rust::header_extension::Extension;
use dvb_gse_rust::label::Label;

#[cfg(not(feature = "deep"))]
pub const NP: usize = 8;
#[cfg(not(feature = "deep"))]
pub const NB: usize = 24;
#[cfg(feature = "deep")]
pub const NP: usize = 16;
#[cfg(feature = "deep")]
pub const NB: usize = 40;

/// The label the sender must put on the wire for `label` from re-use state `st`
/// (straight reading of the re-use rule; the policy itself is C15's subject).
pub fn written_label(st: &(bool, u8, u8, Option<Label>), label: &Label) -> Label {
    let (act, max, cur, last) = st;
    if *act && opt_label_eq(last, &Some(*label)) && (*max == 0 || *cur < *max) {
        Label::ReUse
    } else {
        *label
    }
}

/// Field-by-field check of a start (complete / first) packet without extensions.
#[allow(clippy::too_many_arguments)]
pub fn check_start_packet(
    buf: &[u8],
    orig: &[u8],
    buf_len: usize,
    n: usize,
    complete: bool,
    wl: &Label,
    ptype: u16,
    fid: u8,
    pdu: &[u8],
    pdu_len: usize,
    carried: usize,
) {
    assert!(n <= buf_len, "C06.len_le_buffer");
    assert!(n >= 4, "C06.len_ge_min");
    let w = be16(buf, 0);
    assert!(buf[0] & 0xF0 != 0, "C06.not_padding");
    let lay = layout(w);
    assert!(lay.is_some(), "C06.header_parses");
    let l = lay.unwrap();
    assert!(l.kind == if complete { Kind::Complete } else { Kind::First }, "C06.start_end_bits");
    assert!(l.lt == lt_of_label(wl), "C06.label_type_bits");
    assert!(l.gse_len == n - 2, "C06.gse_len_is_written_minus_2");
    assert!(l.gse_len <= 4095, "C06.gse_len_12bit");
    if complete {
        assert!(l.frag_id_off.is_none() && l.total_len_off.is_none(), "C06.complete_no_frag_fields");
    } else {
        assert!(buf[l.frag_id_off.unwrap()] == fid, "C06.first_frag_id");
        let tl = be16(buf, l.total_len_off.unwrap()) as usize;
        assert!(tl == 2 + wl.len() + pdu_len, "C06.first_total_length");
    }
    assert!(be16(buf, l.ptype_off.unwrap()) == ptype, "C06.protocol_type_field");
    assert!(l.label_len == wl.len(), "C06.label_len");
    let li = any_len(5);
    if li < l.label_len {
        assert!(buf[l.label_off + li] == label_byte(wl, li), "C06.label_bytes");
    }
    assert!(l.data_end - l.data_off == carried, "C06.payload_len");
    let i = any_len(NP - 1);
    if i < carried {
        assert!(buf[l.data_off + i] == pdu[i], "C06.payload_bytes");
        kani::cover!(i > 0, "payload_index_inside");
    }
    let j = any_len(NB - 1);
    if j >= n {
        assert!(buf[j] == orig[j], "C06.nothing_written_beyond_len");
        kani::cover!(j < buf_len, "tail_index_inside_buffer");
    }
}

/// encap, byte tier.
#[kani::proof]
#[kani::unwind(8)]
pub fn encap_bytes() {
    let pdu_arr: [u8; NP] = kani::any();
    let mut buf_arr: [u8; NB] = kani::any();
    let orig = buf_arr;
    let pdu_len = any_len(NP);
    let buf_len = any_len(NB);
    let label = any_label();
    let ptype: u16 = kani::any();
    let fid: u8 = kani::any();
    let (act, max, cur, last) = any_enc_state();
    let crc: u32 = kani::any();
    let st = (act, max, cur, last);
    let mut enc = Encapsulator::verif_from_parts(ConstCrc(crc), act, max, cur, last);
    let md = EncapMetadata::new(ptype, label);
    let r = enc.encap(&pdu_arr[..pdu_len], fid, md, &mut buf_arr[..buf_len]);
    let wl = written_label(&st, &label);
    match &r {
        Ok(EncapStatus::CompletedPkt(n)) => {
            let n = *n as usize;
            check_start_packet(&buf_arr, &orig, buf_len, n, true, &wl, ptype, fid, &pdu_arr, pdu_len, pdu_len);
            assert!(n == 4 + wl.len() + pdu_len, "C06.complete_len");
            kani::cover!(wl.len() == 6, "complete_6b");
            kani::cover!(label.len() == 3 && wl.len() == 0, "complete_reuse_substituted");
        }
        Ok(EncapStatus::FragmentedPkt(n, ctx)) => {
            let n = *n as usize;
            let carried = ctx.len_pdu_frag() as usize;
            assert!(carried <= pdu_len, "C06.first_ctx_le_pdu");
            check_start_packet(&buf_arr, &orig, buf_len, n, false, &wl, ptype, fid, &pdu_arr, pdu_len, carried);
            assert!(n == 7 + wl.len() + carried, "C06.first_len");
            assert!(ctx.frag_id() == fid, "C06.first_ctx_frag_id");
            assert!(ctx.crc() == crc, "C06.first_ctx_crc_from_calculator");
            kani::cover!(carried > 0, "first_with_payload");
            kani::cover!(wl.len() == 6, "first_6b");
        }
        Err(_) => {}
    }
    core::mem::forget(enc);
}

/// encap_frag, byte tier.
#[kani::proof]
pub fn encap_frag_bytes() {
    let pdu_arr: [u8; NP] = kani::any();
    let mut buf_arr: [u8; NB] = kani::any();
    let orig = buf_arr;
    let pdu_len = any_len(NP);
    let buf_len = any_len(NB);
    let ctx = any_ctx();
    let pos = ctx.len_pdu_frag() as usize;
    let enc = Encapsulator::new(ConstCrc(0));
    let r = enc.encap_frag(&pdu_arr[..pdu_len], &ctx, &mut buf_arr[..buf_len]);
    let (n, end, adv) = match &r {
        Ok(EncapStatus::CompletedPkt(n)) => (*n as usize, true, pdu_len - pos),
        Ok(EncapStatus::FragmentedPkt(n, c2)) => {
            let p2 = c2.len_pdu_frag() as usize;
            assert!(p2 >= pos && p2 <= pdu_len, "C06.frag_ctx_range");
            (*n as usize, false, p2 - pos)
        }
        Err(_) => return,
    };
    assert!(n <= buf_len, "C06.len_le_buffer");
    assert!(buf_arr[0] & 0xF0 != 0, "C06.not_padding");
    let lay = layout(be16(&buf_arr, 0));
    assert!(lay.is_some(), "C06.header_parses");
    let l = lay.unwrap();
    assert!(l.kind == if end { Kind::End } else { Kind::Intermediate }, "C06.start_end_bits");
    // TS 102 606-1: label type of non-start fragments shall be 11
    assert!(l.lt == LT::ReUse, "C06.continuation_label_type_11");
    assert!(l.gse_len == n - 2 && l.gse_len <= 4095, "C06.gse_len_is_written_minus_2");
    assert!(buf_arr[l.frag_id_off.unwrap()] == ctx.frag_id(), "C06.frag_id_field");
    assert!(l.data_end - l.data_off == adv, "C06.payload_len");
    let i = any_len(NP - 1);
    if i < adv {
        assert!(buf_arr[l.data_off + i] == pdu_arr[pos + i], "C06.payload_bytes");
        kani::cover!(pos > 0 && i > 0, "payload_index_inside");
    }
    if end {
        assert!(be32(&buf_arr, l.crc_off.unwrap()) == ctx.crc(), "C06.crc_trailer");
        assert!(l.crc_off.unwrap() + 4 == n, "C06.crc_is_last");
        kani::cover!(adv == 0, "end_crc_only");
    } else {
        kani::cover!(adv > 1, "intermediate");
    }
    let j = any_len(NB - 1);
    if j >= n {
        assert!(buf_arr[j] == orig[j], "C06.nothing_written_beyond_len");
        kani::cover!(j < buf_len, "tail_index_inside_buffer");
    }
}

/// encap, lattice tier: length accounting for every size.
#[kani::proof]
#[kani::unwind(8)]
pub fn encap_lattice() {
    let pdu_len = any_len(BIG);
    let buf_len = any_len(BIG);
    let pdu_v = zeros(pdu_len);
    let mut buf_v = zeros(buf_len);
    let label = any_label();
    let (act, max, cur, last) = any_enc_state();
    let st = (act, max, cur, last);
    let mut enc = Encapsulator::verif_from_parts(ConstCrc(0), act, max, cur, last);
    let md = EncapMetadata::new(kani::any(), label);
    let r = enc.encap(&pdu_v[..], kani::any(), md, &mut buf_v[..]);
    let wl = written_label(&st, &label);
    match &r {
        Ok(EncapStatus::CompletedPkt(n)) => {
            let n = *n as usize;
            assert!(n <= buf_len && n <= 4097, "C06.lattice_complete_len_bounds");
            assert!(n == 4 + wl.len() + pdu_len, "C06.lattice_complete_len");
        }
        Ok(EncapStatus::FragmentedPkt(n, ctx)) => {
            let n = *n as usize;
            let carried = ctx.len_pdu_frag() as usize;
            assert!(n <= buf_len && n <= 4097, "C06.lattice_first_len_bounds");
            assert!(n == 7 + wl.len() + carried, "C06.lattice_first_len");
            assert!(carried < pdu_len, "C06.lattice_first_ctx_inside_pdu");
            assert!(2 + wl.len() + pdu_len <= 65535, "C06.lattice_total_length_fits");
            kani::cover!(n == 4097, "first_max_packet");
        }
        Err(_) => {}
    }
    core::mem::forget(enc);
}

/// encap_frag, lattice tier.
#[kani::proof]
pub fn encap_frag_lattice() {
    let pdu_len = any_len(65535);
    let buf_len = any_len(BIG);
    let pdu_v = zeros(pdu_len);
    let mut buf_v = zeros(buf_len);
    let ctx = any_ctx();
    let pos = ctx.len_pdu_frag() as usize;
    let enc = Encapsulator::new(ConstCrc(0));
    let r = enc.encap_frag(&pdu_v[..], &ctx, &mut buf_v[..]);
    match &r {
        Ok(EncapStatus::CompletedPkt(n)) => {
            let n = *n as usize;
            assert!(n <= buf_len && n <= 4097, "C06.lattice_end_len_bounds");
            assert!(n == 7 + (pdu_len - pos), "C06.lattice_end_len");
            kani::cover!(n == 4097, "end_max_packet");
        }
        Ok(EncapStatus::FragmentedPkt(n, c2)) => {
            let n = *n as usize;
            let p2 = c2.len_pdu_frag() as usize;
            assert!(n <= buf_len && n <= 4097, "C06.lattice_intermediate_len_bounds");
            assert!(p2 > pos && p2 <= pdu_len && n == 3 + (p2 - pos), "C06.lattice_intermediate_len");
            kani::cover!(n == 4097, "intermediate_max_packet");
        }
        Err(_) => {}
    }
}

/// Lattice tier with ONE symbolic payload byte at a symbolic position: for every PDU
/// length 0..=70000 and buffer length 0..=70000, the byte at PDU position i is found at
/// offset (header + i) of the packet whenever position i is carried, and nothing else of
/// the payload area becomes non-zero.  Extends the byte tier's "payload = the PDU slice"
/// to all lengths (for an otherwise zero PDU).
#[kani::proof]
#[kani::unwind(8)]
pub fn encap_payload_position_lattice() {
    let pdu_len = any_len(BIG);
    let buf_len = any_len(BIG);
    let mut pdu_v = zeros(pdu_len);
    let mut buf_v = zeros(buf_len);
    let i = any_len(BIG);
    kani::assume(i < pdu_len);
    let x: u8 = kani::any();
    kani::assume(x != 0);
    pdu_v[i] = x;
    let label = any_label();
    let st = any_enc_state();
    let mut enc = Encapsulator::verif_from_parts(ConstCrc(0), st.0, st.1, st.2, st.3);
    let r = enc.encap(&pdu_v[..], kani::any(), EncapMetadata::new(kani::any(), label), &mut buf_v[..]);
    let wl = written_label(&st, &label);
    let (hdr, carried) = match &r {
        Ok(EncapStatus::CompletedPkt(_)) => (4 + wl.len(), pdu_len),
        Ok(EncapStatus::FragmentedPkt(_, ctx)) => (7 + wl.len(), ctx.len_pdu_frag() as usize),
        Err(_) => {
            core::mem::forget(enc);
            return;
        }
    };
    if i < carried {
        assert!(buf_v[hdr + i] == x, "C06.payload_byte_at_its_position");
        kani::cover!(i > 4000, "deep_position");
    }
    let j = any_len(BIG);
    if j < carried && j != i {
        assert!(buf_v[hdr + j] == 0, "C06.no_other_payload_byte_disturbed");
    }
    kani::cover!(carried > 4000 && buf_len > 4097, "big_first_fragment");
    core::mem::forget(enc);
}

/// Same for continuation packets: PDU position pos + i lands at offset 3 + i.
#[kani::proof]
pub fn encap_frag_payload_position_lattice() {
    let pdu_len = any_len(65535);
    let buf_len = any_len(BIG);
    let mut pdu_v = zeros(pdu_len);
    let mut buf_v = zeros(buf_len);
    let k = any_len(65535);
    kani::assume(k < pdu_len);
    let x: u8 = kani::any();
    kani::assume(x != 0);
    pdu_v[k] = x;
    let ctx = any_ctx();
    let pos = ctx.len_pdu_frag() as usize;
    let enc = Encapsulator::new(ConstCrc(0));
    let r = enc.encap_frag(&pdu_v[..], &ctx, &mut buf_v[..]);
    let adv = match &r {
        Ok(EncapStatus::CompletedPkt(_)) => pdu_len - pos,
        Ok(EncapStatus::FragmentedPkt(_, c2)) => c2.len_pdu_frag() as usize - pos,
        Err(_) => return,
    };
    if k >= pos && k < pos + adv {
        assert!(buf_v[3 + (k - pos)] == x, "C06.payload_byte_at_its_position");
        kani::cover!(k - pos > 4000, "deep_position");
    }
    let j = any_len(65535);
    if j < adv && pos + j != k {
        assert!(buf_v[3 + j] == 0, "C06.no_other_payload_byte_disturbed");
    }
}

#[cfg(feature = "twins")]
#[kani::proof]
#[kani::unwind(8)]
pub fn twin_encap_bytes() {
    let pdu_arr: [u8; NP] = kani::any();
    let mut buf_arr: [u8; NB] = kani::any();
    let pdu_len = any_len(NP);
    let buf_len = any_len(NB);
    let mut enc = any_encapsulator();
    let md = EncapMetadata::new(kani::any(), any_label());
    let r = enc.encap(&pdu_arr[..pdu_len], 1, md, &mut buf_arr[..buf_len]);
    if let Ok(EncapStatus::FragmentedPkt(n, _)) = r {
        if buf_arr[0] & 0xC0 == 0x80 && n > 9 {
            assert!(false, "TWIN.reachable");
        }
    }
    core::mem::forget(enc);
}

//! C05: decap is total on arbitrary bytes — no panic, bounded and progressing consumption —
//! from every receiver state; the peek function is total.
use crate::dmodels::*;
use crate::extm::*;
use crate::models::*;
use crate::spec::*;
use dvb_gse_rust::crc::DefaultCrc;
use dvb_gse_rust::gse_decap::{DecapError, DecapStatus, Decapsulator, GseDecapMemory, SimpleGseMemory};
use dvb_gse_rust::header_extension::{SignalisationMandatoryExtensionHeaderManager, SimpleMandatoryExtensionHeaderManager};

pub fn consumed_of<T, E>(r: &Result<(T, usize), (E, usize)>) -> usize {
    match r {
        Ok((_, n)) => *n,
        Err((_, n)) => *n,
    }
}

/// Which start packets a harness instance covers (keeps the extension walker, the most
/// expensive code, out of the instances that do not need it).
#[derive(Copy, Clone, PartialEq, Eq)]
pub enum Ext {
    /// the 16-bit type field at `off` is >= 0x600 (no extension header)
    No(usize),
    /// the type field at `off` is < 0x600 (extension walker runs)
    Yes(usize),
    /// not a start packet: nothing to constrain
    NA,
}

pub fn check_total<T>(r: &Result<(T, usize), (DecapError, usize)>, len: usize) {
    let consumed = consumed_of(r);
    assert!(consumed <= len, "C05.consumed_le_buffer");
    if len > 0 {
        assert!(consumed >= if len < 2 { len } else { 2 }, "C05.consumed_progress");
    }
}

/// One decap call on arbitrary bytes (symbolic length 0..=NB) from an arbitrary state of
/// the given heap shape; reference memory (the bundled memory is tied to it by C17).
/// `expect_ok`: whether an Ok outcome must be reachable in this instance (vacuity witness).
pub fn total_body<const S: usize, const Z: usize, const NB: usize>(
    sh: &Shape,
    ext: Ext,
    mode: TakeMode,
    hint: Option<usize>,
    expect_ok: bool,
) {
    total_body_mgr::<S, Z, NB, TestMgr>(sh, ext, mode, hint, expect_ok, TestMgr)
}

pub fn total_body_mgr<const S: usize, const Z: usize, const NB: usize, M: dvb_gse_rust::header_extension::MandatoryHeaderExtensionManager>(
    sh: &Shape,
    ext: Ext,
    mode: TakeMode,
    hint: Option<usize>,
    expect_ok: bool,
    mgr: M,
) {
    let mut mem = build_ref::<S, Z>(sh);
    mem.mode = mode;
    mem.slot_hint = hint;
    let mut d = Decapsulator::new(mem, ConstCrc(kani::any()), mgr);
    d.verif_set_last_label(any_rx_label());
    let buf: [u8; NB] = kani::any();
    let len = any_len(NB);
    match ext {
        Ext::No(off) => kani::assume(be16(&buf, off) >= 0x600),
        Ext::Yes(off) => kani::assume(be16(&buf, off) < 0x600),
        Ext::NA => {}
    }
    let r = d.decap(&buf[..len]);
    check_total(&r, len);
    // (instances in which no packet can be accepted only need the error witness)
    kani::cover!(!expect_ok || r.is_ok(), "ok");
    kani::cover!(len >= 4 && (r.is_err() || matches!(&r, Ok((DecapStatus::Padding, _)))), "err_or_padding");
    core::mem::forget(r);
    core::mem::forget(d);
}

/// Same with the bundled SimpleGseMemory directly (kinds / shapes where that is affordable).
pub fn total_body_simple<const Z: usize, const NB: usize>(sh: &Shape, ext: Ext) {
    let mem = build_simple::<Z>(sh);
    let mut d = Decapsulator::new(mem, ConstCrc(kani::any()), TestMgr);
    d.verif_set_last_label(any_rx_label());
    let buf: [u8; NB] = kani::any();
    let len = any_len(NB);
    match ext {
        Ext::No(off) => kani::assume(be16(&buf, off) >= 0x600),
        Ext::Yes(off) => kani::assume(be16(&buf, off) < 0x600),
        Ext::NA => {}
    }
    let r = d.decap(&buf[..len]);
    check_total(&r, len);
    kani::cover!(r.is_ok(), "ok");
    core::mem::forget(r);
    core::mem::forget(d);
}

macro_rules! total {
    ($name:ident, $stub:path, $s:expr, $nb:expr, $unw:expr, $shape:expr, $ext:expr, $mode:expr, $hint:expr, $ok:expr) => {
        #[kani::proof]
        #[kani::unwind($unw)]
        #[kani::stub(dvb_gse_rust::gse_decap::read_gse_header, $stub)]
        pub fn $name() {
            total_body::<$s, 6, $nb>(&$shape, $ext, $mode, $hint, $ok);
        }
    };
}

/// Instances that run the extension walker.  The walker needs one loop iteration per
/// 2 bytes of chain area, so the area size and the unwind bound go together: complete
/// packets 6 bytes / unwind 5 (thorough 10 / 7), first fragments 2 bytes / unwind 3
/// (thorough 4 / 4) — first fragments also clone the list, which is what makes them
/// expensive.  memcmp gets its own bound on the command line (label comparison: 7).
macro_rules! total_ext {
    ($name:ident, $uq:literal, $ut:literal, $stub:path, $s:expr, $nb:expr, $shape:expr, $ext:expr, $mode:expr, $hint:expr, $ok:expr) => {
        #[kani::proof]
        #[cfg_attr(not(feature = "deep"), kani::unwind($uq))]
        #[cfg_attr(feature = "deep", kani::unwind($ut))]
        #[kani::stub(dvb_gse_rust::gse_decap::read_gse_header, $stub)]
        pub fn $name() {
            total_body::<$s, 6, $nb>(&$shape, $ext, $mode, $hint, $ok);
        }
    };
}

/// Walker instances with the bundled manager that knows no mandatory extension.
macro_rules! total_ext_nomand {
    ($name:ident, $uq:literal, $ut:literal, $stub:path, $s:expr, $nb:expr, $shape:expr, $ext:expr, $mode:expr, $hint:expr, $ok:expr) => {
        #[kani::proof]
        #[cfg_attr(not(feature = "deep"), kani::unwind($uq))]
        #[cfg_attr(feature = "deep", kani::unwind($ut))]
        #[kani::stub(dvb_gse_rust::gse_decap::read_gse_header, $stub)]
        pub fn $name() {
            total_body_mgr::<$s, 6, $nb, SimpleMandatoryExtensionHeaderManager>(
                &$shape, $ext, $mode, $hint, $ok, SimpleMandatoryExtensionHeaderManager {});
        }
    };
}

/// Instances whose packets carry no extension header: the walker is replaced by a stub
/// that fails if it is ever reached.
macro_rules! total_noext {
    ($name:ident, $stub:path, $s:expr, $nb:expr, $unw:expr, $shape:expr, $ext:expr, $mode:expr, $hint:expr, $ok:expr) => {
        #[kani::proof]
        #[kani::unwind($unw)]
        #[kani::stub(dvb_gse_rust::gse_decap::read_gse_header, $stub)]
        #[kani::stub(dvb_gse_rust::gse_decap::iterate_over_extension_header, crate::dmodels::walker_unreachable)]
        pub fn $name() {
            total_body::<$s, 6, $nb>(&$shape, $ext, $mode, $hint, $ok);
        }
    };
}

macro_rules! total_simple {
    ($name:ident, $stub:path, $nb:expr, $unw:expr, $shape:expr, $ext:expr) => {
        #[kani::proof]
        #[kani::unwind($unw)]
        #[kani::stub(dvb_gse_rust::gse_decap::read_gse_header, $stub)]
        #[kani::stub(dvb_gse_rust::gse_decap::iterate_over_extension_header, crate::dmodels::walker_unreachable)]
        #[kani::stub(core::mem::swap, crate::dmodels::swap_stub)]
        pub fn $name() {
            total_body_simple::<6, $nb>(&$shape, $ext);
        }
    };
}

const E: Shape = Shape { s: 1, occ: [false, false, false], free: 1, ext: 0 };
const E0: Shape = Shape { s: 1, occ: [false, false, false], free: 0, ext: 0 };
const O: Shape = Shape { s: 1, occ: [true, false, false], free: 0, ext: 0 };
const OF: Shape = Shape { s: 1, occ: [true, false, false], free: 3, ext: 0 };
const OX: Shape = Shape { s: 1, occ: [true, false, false], free: 1, ext: 1 };
const S2: Shape = Shape { s: 2, occ: [true, false, false], free: 1, ext: 0 };
const S2B: Shape = Shape { s: 2, occ: [true, true, false], free: 0, ext: 0 };

// byte-string bounds: NBF without extension header, NBXC / NBXF with (complete / first);
// the walker needs one loop iteration per 2 bytes after the label, hence the unwind UX.
#[cfg(not(feature = "deep"))]
pub const NBF: usize = 16;
#[cfg(feature = "deep")]
pub const NBF: usize = 24;
// chain area after the label
#[cfg(not(feature = "deep"))]
pub const XAC: usize = 6;
#[cfg(feature = "deep")]
pub const XAC: usize = 10;
#[cfg(not(feature = "deep"))]
pub const XAF: usize = 2;
#[cfg(feature = "deep")]
pub const XAF: usize = 4;
pub const NBXC: usize = 4 + XAC;
pub const NBXC3: usize = 7 + XAC;
pub const NBXC6: usize = 10 + XAC;
pub const NBXF: usize = 7 + XAF;
pub const NBXF3: usize = 10 + XAF;
pub const NBXF6: usize = 13 + XAF;

use crate::dmodels::TakeMode::{Any, Match, Mismatch};
// complete packets without extension header: free list empty / one / full
total_noext!(complete_free1, crate::dmodels::hdr_complete, 1, NBF, 8, E, Ext::No(2), Any, None, true);
total_noext!(complete_free0, crate::dmodels::hdr_complete, 1, NBF, 8, E0, Ext::No(2), Any, None, false);
total_noext!(complete_occ_full, crate::dmodels::hdr_complete, 1, NBF, 8, OF, Ext::No(2), Any, None, true);
// complete packets with an extension chain
total_ext!(complete_ext_bc_free1, 5, 7, crate::dmodels::hdr_complete_bc, 1, NBXC, E, Ext::Yes(2), Any, None, true);
total_ext!(complete_ext_ru_free1, 5, 7, crate::dmodels::hdr_complete_ru, 1, NBXC, E, Ext::Yes(2), Any, None, true);
total_ext!(complete_ext_3b_free1, 5, 7, crate::dmodels::hdr_complete_3b, 1, NBXC3, E, Ext::Yes(2), Any, None, true);
total_ext!(complete_ext_6b_free1, 5, 7, crate::dmodels::hdr_complete_6b, 1, NBXC6, E, Ext::Yes(2), Any, None, true);
total_ext!(complete_ext_bc_free0, 5, 7, crate::dmodels::hdr_complete_bc, 1, NBXC, E0, Ext::Yes(2), Any, None, false);
// first fragments: empty slot / occupied slot (same or aliasing id) / no free buffer / 2 slots
total_noext!(first_free1, crate::dmodels::hdr_first, 1, NBF, 8, E, Ext::No(5), Any, None, true);
total_noext!(first_free0, crate::dmodels::hdr_first, 1, NBF, 8, E0, Ext::No(5), Any, None, false);
total_noext!(first_occ, crate::dmodels::hdr_first, 1, NBF, 8, O, Ext::No(5), Any, None, true);
total_noext!(first_s2_slot0, crate::dmodels::hdr_first, 2, NBF, 8, S2, Ext::No(5), Any, Some(0), true);
total_noext!(first_s2_slot1, crate::dmodels::hdr_first, 2, NBF, 8, S2, Ext::No(5), Any, Some(1), true);
total_ext!(first_ext_bc_free1, 3, 4, crate::dmodels::hdr_first_bc, 1, NBXF, E, Ext::Yes(5), Any, None, true);
total_ext!(first_ext_ru_free1, 3, 4, crate::dmodels::hdr_first_ru, 1, NBXF, E, Ext::Yes(5), Any, None, true);
total_ext!(first_ext_3b_free1, 3, 4, crate::dmodels::hdr_first_3b, 1, NBXF3, E, Ext::Yes(5), Any, None, true);
total_ext!(first_ext_6b_free1, 3, 4, crate::dmodels::hdr_first_6b, 1, NBXF6, E, Ext::Yes(5), Any, None, true);
total_ext!(first_ext_bc_occ, 3, 4, crate::dmodels::hdr_first_bc, 1, NBXF, OX, Ext::Yes(5), Any, None, true);
total_ext_nomand!(first_ext_nomand_bc_free1, 3, 4, crate::dmodels::hdr_first_bc, 1, NBXF, E, Ext::Yes(5), Any, None, true);
// intermediate / end: no context; context with the packet's id (Match) or another id that
// aliases to the slot (Mismatch); context with extension; full free list (give-back must
// not panic); two slots
total!(inter_none, crate::dmodels::hdr_intermediate, 1, NBF, 8, E, Ext::NA, Any, None, false);
total!(inter_match, crate::dmodels::hdr_intermediate, 1, NBF, 8, O, Ext::NA, Match, None, true);
total!(inter_mismatch, crate::dmodels::hdr_intermediate, 1, NBF, 8, O, Ext::NA, Mismatch, None, false);
total!(inter_match_full, crate::dmodels::hdr_intermediate, 1, NBF, 8, OF, Ext::NA, Match, None, true);
total!(inter_match_ext, crate::dmodels::hdr_intermediate, 1, NBF, 8, OX, Ext::NA, Match, None, true);
total!(inter_s2_match, crate::dmodels::hdr_intermediate, 2, NBF, 8, S2B, Ext::NA, Match, Some(1), true);
total!(inter_s2_mismatch, crate::dmodels::hdr_intermediate, 2, NBF, 8, S2B, Ext::NA, Mismatch, Some(0), false);
total!(inter_s2_empty_slot, crate::dmodels::hdr_intermediate, 2, NBF, 8, S2, Ext::NA, Any, Some(1), false);
total!(end_none, crate::dmodels::hdr_end, 1, NBF, 8, E, Ext::NA, Any, None, false);
total!(end_match, crate::dmodels::hdr_end, 1, NBF, 8, O, Ext::NA, Match, None, true);
total!(end_mismatch, crate::dmodels::hdr_end, 1, NBF, 8, O, Ext::NA, Mismatch, None, false);
total!(end_match_full, crate::dmodels::hdr_end, 1, NBF, 8, OF, Ext::NA, Match, None, true);
total!(end_match_ext, crate::dmodels::hdr_end, 1, NBF, 8, OX, Ext::NA, Match, None, true);
total!(end_s2_match, crate::dmodels::hdr_end, 2, NBF, 8, S2B, Ext::NA, Match, Some(1), true);
total!(end_s2_mismatch, crate::dmodels::hdr_end, 2, NBF, 8, S2B, Ext::NA, Mismatch, Some(0), false);
total!(end_s2_empty_slot, crate::dmodels::hdr_end, 2, NBF, 8, S2, Ext::NA, Any, Some(1), false);
// padding
total!(padding_any, crate::dmodels::hdr_padding, 1, NBF, 8, O, Ext::NA, Any, None, true);
// bundled memory directly
total_simple!(simple_end_occ, crate::dmodels::hdr_end, NBF, 8, O, Ext::NA);
total_simple!(simple_end_occ_full, crate::dmodels::hdr_end, NBF, 8, OF, Ext::NA);
total_simple!(simple_complete_free1, crate::dmodels::hdr_complete, NBF, 8, E, Ext::No(2));
total_simple!(simple_first_free1, crate::dmodels::hdr_first, NBF, 8, E, Ext::No(5));
total_simple!(simple_first_occ, crate::dmodels::hdr_first, NBF, 8, O, Ext::No(5));

/// All byte strings of length 0..=3, no stub at all.
#[kani::proof]
#[kani::unwind(9)]
#[kani::stub(core::mem::swap, crate::dmodels::swap_stub)]
#[kani::stub(dvb_gse_rust::gse_decap::iterate_over_extension_header, crate::dmodels::walker_unreachable)]
pub fn short_unstubbed() {
    let mem = build_simple::<6>(&E);
    let mut d = Decapsulator::new(mem, ConstCrc(kani::any()), TestMgr);
    d.verif_set_last_label(any_rx_label());
    let buf: [u8; 3] = kani::any();
    let len = any_len(3);
    let r = d.decap(&buf[..len]);
    check_total(&r, len);
    kani::cover!(len == 3 && r.is_err(), "err3");
    kani::cover!(len == 2 && r.is_ok(), "ok2");
    core::mem::forget(r);
    core::mem::forget(d);
}

/// Peek: arbitrary bytes 0..=16, real header reader, never panics.
#[kani::proof]
#[kani::unwind(9)]
pub fn peek_total() {
    let mem = SimpleGseMemory::new(1, 4, 0, 0);
    let d = Decapsulator::new(mem, ConstCrc(0), SimpleMandatoryExtensionHeaderManager {});
    let buf: [u8; 16] = kani::any();
    let len = any_len(16);
    let r = d.get_label_or_frag_id(&buf[..len]);
    kani::cover!(r.is_ok(), "ok");
    kani::cover!(r.is_err(), "err");
    core::mem::forget(d);
}

#[cfg(feature = "twins")]
#[kani::proof]
#[kani::unwind(9)]
#[kani::stub(dvb_gse_rust::gse_decap::read_gse_header, crate::dmodels::hdr_end)]
#[kani::stub(core::mem::swap, crate::dmodels::swap_stub)]
pub fn twin_end_occ() {
    let mem = build_simple::<6>(&O);
    let mut d = Decapsulator::new(mem, ConstCrc(kani::any()), TestMgr);
    let buf: [u8; 16] = kani::any();
    let len = any_len(16);
    let r = d.decap(&buf[..len]);
    if let Ok((DecapStatus::CompletedPkt(_, _), _)) = &r {
        assert!(false, "TWIN.reachable");
    }
    core::mem::forget(r);
    core::mem::forget(d);
}

//! C13: extension-header chains round-trip; unknown mandatory extensions cause a drop;
//! the extension constructor is total.  (Sender-side members are also run by C06 / C09.)
use crate::extm::*;
use crate::models::*;
use crate::spec::*;
use dvb_gse_rust::gse_encap::{ContextFrag, EncapError, EncapMetadata, EncapStatus, Encapsulator};
use dvb_gse_rust::header_extension::{Extension, ExtensionData, NewExtensionError};
use dvb_gse_rust::label::Label;

/// Constructor: every id x data length 0..=10: never panics, Ok exactly when id < 0x600
/// and (id < 0x100 or length == H-LEN table), and the value carries id and data.
#[kani::proof]
#[kani::unwind(12)]
pub fn extension_new_total() {
    let id: u16 = kani::any();
    let data: [u8; 10] = kani::any();
    let n = any_len(10);
    let r = Extension::new(id, &data[..n]);
    let should_ok = id < 0x600 && (id < 0x100 || hlen_data(id) == Some(n));
    match &r {
        Ok(e) => {
            assert!(should_ok, "C13.new_ok_only_if_valid");
            assert!(e.id() == id, "C13.new_keeps_id");
            assert!(ext_data_len(e) == n, "C13.new_keeps_data_len");
            assert!(e.len() == 2 + n, "C13.new_len");
            let i = any_len(9);
            if i < n {
                assert!(ext_data_byte(e, i) == Some(data[i]), "C13.new_keeps_data");
            }
            kani::cover!(id < 0x100 && n == 10, "mandatory_10");
            kani::cover!(id >= 0x500 && n == 8, "optional_8");
            kani::cover!(id >= 0x100 && id < 0x200 && n == 0, "optional_0");
        }
        Err(e) => {
            assert!(!should_ok, "C13.new_err_only_if_invalid");
            if id >= 0x600 {
                assert!(*e == NewExtensionError::IncorrectExtensionId, "C13.new_bad_id_error");
            } else {
                assert!(*e == NewExtensionError::IdAndVecSizeNotMatchingError, "C13.new_bad_size_error");
            }
            kani::cover!(id == 0x600, "id_0x600");
            kani::cover!(id == 0xFFFF, "id_max");
            kani::cover!(id >= 0x100 && id < 0x600, "size_mismatch");
        }
    }
    core::mem::forget(r);
}

#[cfg(not(feature = "deep"))]
pub const NPE: usize = 5;
#[cfg(not(feature = "deep"))]
pub const NBE: usize = 36;
#[cfg(feature = "deep")]
pub const NPE: usize = 6;
#[cfg(feature = "deep")]
pub const NBE: usize = 52;

/// Sender side, byte tier, for one concrete chain shape: when encap_ext returns Ok the
/// bytes are the standard's layout for exactly this chain / protocol type / label / PDU,
/// the returned length is the on-wire length, and Ok is only returned for encodable
/// combinations.  Err leaves buffer and state untouched (C09).
pub fn ext_sender_body(classes: &[Class]) {
    let m = classes.len();
    let mut specs = [NO_EXT; 4];
    let mut exts: Vec<Extension> = Vec::with_capacity(m);
    let mut k = 0;
    while k < m {
        let (e, s) = mk_ext(classes[k]);
        exts.push(e);
        specs[k] = s;
        k += 1;
    }
    let pdu_arr: [u8; NPE] = kani::any();
    let mut buf_arr: [u8; NBE] = kani::any();
    let orig = buf_arr;
    let pdu_len = any_len(NPE);
    let buf_len = any_len(NBE);
    let label = any_label();
    let ptype: u16 = kani::any();
    let fid: u8 = kani::any();
    let st = any_enc_state();
    let crc: u32 = kani::any();
    let mut enc = Encapsulator::verif_from_parts(ConstCrc(crc), st.0, st.1, st.2, st.3);
    let md = EncapMetadata::new(ptype, label);
    let r = enc.encap_ext(&pdu_arr[..pdu_len], fid, md, &mut buf_arr[..buf_len], exts);
    let after = enc.verif_parts();
    let wl = crate::c06::written_label(&st, &label);
    let last = specs[m - 1];
    let is_final = ptype < 0x100;
    let encodable = !is_zero6(&label) && (ptype >= 0x600 || (is_final && last.mandatory && last.id == ptype));
    let (n, complete, carried) = match &r {
        Ok(EncapStatus::CompletedPkt(n)) => (*n as usize, true, pdu_len),
        Ok(EncapStatus::FragmentedPkt(n, ctx)) => {
            assert!(ctx.frag_id() == fid, "C13.first_ctx_frag_id");
            assert!(ctx.crc() == crc, "C13.first_ctx_crc_from_calculator");
            assert!((ctx.len_pdu_frag() as usize) < pdu_len, "C13.first_ctx_inside_pdu");
            (*n as usize, false, ctx.len_pdu_frag() as usize)
        }
        Err(_) => {
            assert!(state_eq(&st, &after), "C09.encap_ext_err_state_unchanged");
            let j = any_len(NBE - 1);
            assert!(buf_arr[j] == orig[j], "C09.encap_ext_err_buffer_unchanged");
            kani::cover!(encodable, "err_size_for_encodable");
            kani::cover!(!encodable && !is_zero6(&label), "err_not_encodable");
            core::mem::forget(enc);
            return;
        }
    };
    assert!(encodable, "C13.ok_only_if_encodable");
    let (area, alen) = ext_area(&specs, m, ptype, is_final);
    assert!(n <= buf_len, "C13.len_le_buffer");
    assert!(buf_arr[0] & 0xF0 != 0, "C13.not_padding");
    let lay = layout(be16(&buf_arr, 0));
    assert!(lay.is_some(), "C13.header_parses");
    let l = lay.unwrap();
    assert!(l.kind == if complete { Kind::Complete } else { Kind::First }, "C13.start_end_bits");
    assert!(l.lt == lt_of_label(&wl), "C13.label_type_bits");
    assert!(l.gse_len == n - 2, "C13.reported_len_is_on_wire_len");
    assert!(l.gse_len <= 4095, "C13.gse_len_12bit");
    if !complete {
        assert!(buf_arr[l.frag_id_off.unwrap()] == fid, "C13.first_frag_id");
    }
    // the Protocol_Type field carries the first extension's type
    assert!(be16(&buf_arr, l.ptype_off.unwrap()) == specs[0].id, "C13.first_ext_id_in_type_field");
    let li = any_len(5);
    if li < l.label_len {
        assert!(buf_arr[l.label_off + li] == label_byte(&wl, li), "C13.label_bytes");
    }
    assert!(l.data_end - l.data_off == alen + carried, "C13.ext_area_plus_payload_len");
    let e = any_len(63);
    if e < alen {
        assert!(buf_arr[l.data_off + e] == area[e], "C13.ext_area_bytes");
        kani::cover!(e > 0, "ext_area_index_inside");
    }
    let i = any_len(NPE - 1);
    if i < carried {
        assert!(buf_arr[l.data_off + alen + i] == pdu_arr[i], "C13.payload_bytes");
    }
    let j = any_len(NBE - 1);
    if j >= n {
        assert!(buf_arr[j] == orig[j], "C13.nothing_written_beyond_len");
    }
    kani::cover!(complete, "complete");
    kani::cover!(!complete && carried > 0, "first_with_payload");
    kani::cover!(!complete && carried == 0, "first_header_only");
    core::mem::forget(enc);
}

macro_rules! ext_sender {
    ($name:ident, $unw:expr, [$($c:expr),+]) => {
        #[kani::proof]
        #[kani::unwind($unw)]
        pub fn $name() {
            ext_sender_body(&[$($c),+]);
        }
    };
}

use Class::*;
ext_sender!(sender_o2, 10, [O(2)]);
ext_sender!(sender_o0, 10, [O(0)]);
ext_sender!(sender_o8, 10, [O(8)]);
ext_sender!(sender_m3, 10, [M(3)]);
ext_sender!(sender_m0, 10, [M(0)]);
ext_sender!(sender_o4_o6, 10, [O(4), O(6)]);
ext_sender!(sender_o2_m0, 10, [O(2), M(0)]);
ext_sender!(sender_m3_o0, 10, [M(3), O(0)]);
ext_sender!(sender_m8_m2, 10, [M(8), M(2)]);
ext_sender!(sender_o0_o2_o4, 10, [O(0), O(2), O(4)]);
ext_sender!(sender_m3_o8_m0, 10, [M(3), O(8), M(0)]);
ext_sender!(sender_o2_o4_o6_o8, 10, [O(2), O(4), O(6), O(8)]);
ext_sender!(sender_m0_o0_m3_m2, 10, [M(0), O(0), M(3), M(2)]);

/// encap_ext with an empty list is an error that changes nothing.
#[kani::proof]
#[kani::unwind(8)]
pub fn sender_empty_list() {
    let pdu_arr: [u8; NPE] = kani::any();
    let mut buf_arr: [u8; NBE] = kani::any();
    let orig = buf_arr;
    let pdu_len = any_len(NPE);
    let buf_len = any_len(NBE);
    let st = any_enc_state();
    let mut enc = Encapsulator::verif_from_parts(ConstCrc(0), st.0, st.1, st.2, st.3);
    let md = EncapMetadata::new(kani::any(), any_label());
    let r = enc.encap_ext(&pdu_arr[..pdu_len], 0, md, &mut buf_arr[..buf_len], Vec::new());
    assert!(r == Err(EncapError::ErrorNoExtensionFound), "C13.empty_list_error");
    assert!(state_eq(&st, &enc.verif_parts()), "C09.encap_ext_err_state_unchanged");
    let j = any_len(NBE - 1);
    assert!(buf_arr[j] == orig[j], "C09.encap_ext_err_buffer_unchanged");
    kani::cover!(true, "reached");
    core::mem::forget(enc);
}

#[cfg(feature = "twins")]
#[kani::proof]
#[kani::unwind(10)]
pub fn twin_sender_o2() {
    let (e, _s) = mk_ext(O(2));
    let pdu_arr: [u8; NPE] = kani::any();
    let mut buf_arr: [u8; NBE] = kani::any();
    let pdu_len = any_len(NPE);
    let buf_len = any_len(NBE);
    let mut enc = any_encapsulator();
    let md = EncapMetadata::new(kani::any(), any_label());
    let r = enc.encap_ext(&pdu_arr[..pdu_len], 0, md, &mut buf_arr[..buf_len], vec![e]);
    if let Ok(EncapStatus::FragmentedPkt(_, _)) = r {
        assert!(false, "TWIN.reachable");
    }
    core::mem::forget(enc);
}

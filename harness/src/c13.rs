//! C13: extension-header chains round-trip; unknown mandatory extensions cause a drop;
//! the extension constructor is total.  (Sender-side members are also run by C06 / C09.)
use crate::extm::*;
use crate::models::*;
use crate::spec::*;
use dvb_gse_rust::gse_encap::{ContextFrag, EncapError, EncapMetadata, EncapStatus, Encapsulator};
use dvb_gse_rust::header_extension::{Extension, ExtensionData, NewExtensionError};
use dvb_gse_rust::label::Label;

/// Constructor: every id x data length 0..=10: never panics, Ok exactly when id < 0x600
/// and (id < 0x100 or length == H-LEN table), and the value carries id and data.
#[kani::proof]
#[kani::unwind(12)]
pub fn extension_new_total() {
    let id: u16 = kani::any();
    let data: [u8; 10] = kani::any();
    let n = any_len(10);
    let r = Extension::new(id, &data[..n]);
    let should_ok = id < 0x600 && (id < 0x100 || hlen_data(id) == Some(n));
    match &r {
        Ok(e) => {
            assert!(should_ok, "C13.new_ok_only_if_valid");
            assert!(e.id() == id, "C13.new_keeps_id");
            assert!(ext_data_len(e) == n, "C13.new_keeps_data_len");
            assert!(e.len() == 2 + n, "C13.new_len");
            let i = any_len(9);
            if i < n {
                assert!(ext_data_byte(e, i) == Some(data[i]), "C13.new_keeps_data");
            }
            kani::cover!(id < 0x100 && n == 10, "mandatory_10");
            kani::cover!(id >= 0x500 && n == 8, "optional_8");
            kani::cover!(id >= 0x100 && id < 0x200 && n == 0, "optional_0");
        }
        Err(e) => {
            assert!(!should_ok, "C13.new_err_only_if_invalid");
            let _ = e;
            kani::cover!(id == 0x600, "id_0x600");
            kani::cover!(id == 0xFFFF, "id_max");
            kani::cover!(id >= 0x100 && id < 0x600, "size_mismatch");
        }
    }
    core::mem::forget(r);
}

#[cfg(not(feature = "deep"))]
pub const NPE: usize = 5;
#[cfg(not(feature = "deep"))]
pub const NBE: usize = 36;
#[cfg(feature = "deep")]
pub const NPE: usize = 6;
#[cfg(feature = "deep")]
pub const NBE: usize = 52;

/// Sender side, byte tier, for one concrete chain shape: when encap_ext returns Ok the
/// bytes are the standard's layout for exactly this chain / protocol type / label / PDU,
/// the returned length is the on-wire length, and Ok is only returned for encodable
/// combinations.  Err leaves buffer and state untouched (C09).
pub fn ext_sender_body(classes: &[Class]) {
    let m = classes.len();
    let mut specs = [NO_EXT; 4];
    let mut exts: Vec<Extension> = Vec::with_capacity(m);
    let mut k = 0;
    while k < m {
        let (e, s) = mk_ext(classes[k]);
        exts.push(e);
        specs[k] = s;
        k += 1;
    }
    let pdu_arr: [u8; NPE] = kani::any();
    let mut buf_arr: [u8; NBE] = kani::any();
    let orig = buf_arr;
    let pdu_len = any_len(NPE);
    let buf_len = any_len(NBE);
    let label = any_label();
    let ptype: u16 = kani::any();
    let fid: u8 = kani::any();
    let st = any_enc_state();
    let crc: u32 = kani::any();
    let mut enc = Encapsulator::verif_from_parts(ConstCrc(crc), st.0, st.1, st.2, st.3);
    let md = EncapMetadata::new(ptype, label);
    let r = enc.encap_ext(&pdu_arr[..pdu_len], fid, md, &mut buf_arr[..buf_len], exts);
    let after = enc.verif_parts();
    let wl = crate::c06::written_label(&st, &label);
    let last = specs[m - 1];
    let is_final = ptype < 0x100;
    let encodable = !is_zero6(&label) && (ptype >= 0x600 || (is_final && last.mandatory && last.id == ptype));
    let (n, complete, carried) = match &r {
        Ok(EncapStatus::CompletedPkt(n)) => (*n as usize, true, pdu_len),
        Ok(EncapStatus::FragmentedPkt(n, ctx)) => {
            assert!(ctx.frag_id() == fid, "C13.first_ctx_frag_id");
            assert!(ctx.crc() == crc, "C13.first_ctx_crc_from_calculator");
            assert!((ctx.len_pdu_frag() as usize) < pdu_len, "C13.first_ctx_inside_pdu");
            (*n as usize, false, ctx.len_pdu_frag() as usize)
        }
        Err(_) => {
            assert!(state_eq(&st, &after), "C09.encap_ext_err_state_unchanged");
            let j = any_len(NBE - 1);
            assert!(buf_arr[j] == orig[j], "C09.encap_ext_err_buffer_unchanged");
            kani::cover!(encodable, "err_size_for_encodable");
            kani::cover!(!encodable && !is_zero6(&label), "err_not_encodable");
            core::mem::forget(enc);
            return;
        }
    };
    assert!(encodable, "C13.ok_only_if_encodable");
    let (area, alen) = ext_area(&specs, m, ptype, is_final);
    assert!(n <= buf_len, "C13.len_le_buffer");
    assert!(buf_arr[0] & 0xF0 != 0, "C13.not_padding");
    let lay = layout(be16(&buf_arr, 0));
    assert!(lay.is_some(), "C13.header_parses");
    let l = lay.unwrap();
    assert!(l.kind == if complete { Kind::Complete } else { Kind::First }, "C13.start_end_bits");
    assert!(l.lt == lt_of_label(&wl), "C13.label_type_bits");
    assert!(l.gse_len == n - 2, "C13.reported_len_is_on_wire_len");
    assert!(l.gse_len <= 4095, "C13.gse_len_12bit");
    if !complete {
        assert!(buf_arr[l.frag_id_off.unwrap()] == fid, "C13.first_frag_id");
    }
    // the Protocol_Type field carries the first extension's type
    assert!(be16(&buf_arr, l.ptype_off.unwrap()) == specs[0].id, "C13.first_ext_id_in_type_field");
    let li = any_len(5);
    if li < l.label_len {
        assert!(buf_arr[l.label_off + li] == label_byte(&wl, li), "C13.label_bytes");
    }
    assert!(l.data_end - l.data_off == alen + carried, "C13.ext_area_plus_payload_len");
    let e = any_len(63);
    if e < alen {
        assert!(buf_arr[l.data_off + e] == area[e], "C13.ext_area_bytes");
        kani::cover!(e > 0, "ext_area_index_inside");
    }
    let i = any_len(NPE - 1);
    if i < carried {
        assert!(buf_arr[l.data_off + alen + i] == pdu_arr[i], "C13.payload_bytes");
    }
    let j = any_len(NBE - 1);
    if j >= n {
        assert!(buf_arr[j] == orig[j], "C13.nothing_written_beyond_len");
    }
    kani::cover!(complete, "complete");
    kani::cover!(!complete && carried > 0, "first_with_payload");
    kani::cover!(!complete && carried == 0, "first_header_only");
    core::mem::forget(enc);
}

macro_rules! ext_sender {
    ($name:ident, $unw:expr, [$($c:expr),+]) => {
        #[kani::proof]
        #[kani::unwind($unw)]
        pub fn $name() {
            ext_sender_body(&[$($c),+]);
        }
    };
}

use Class::*;
ext_sender!(sender_o2, 10, [O(2)]);
ext_sender!(sender_o0, 10, [O(0)]);
ext_sender!(sender_o8, 10, [O(8)]);
ext_sender!(sender_m3, 10, [M(3)]);
ext_sender!(sender_m0, 10, [M(0)]);
ext_sender!(sender_o4_o6, 10, [O(4), O(6)]);
ext_sender!(sender_o2_m0, 10, [O(2), M(0)]);
ext_sender!(sender_m3_o0, 10, [M(3), O(0)]);
ext_sender!(sender_m8_m2, 10, [M(8), M(2)]);
ext_sender!(sender_o0_o2_o4, 10, [O(0), O(2), O(4)]);
ext_sender!(sender_m3_o8_m0, 10, [M(3), O(8), M(0)]);
ext_sender!(sender_o2_o4_o6_o8, 10, [O(2), O(4), O(6), O(8)]);
ext_sender!(sender_m0_o0_m3_m2, 10, [M(0), O(0), M(3), M(2)]);
// every optional class also in NON-last position (the chain writer has separate code for
// the last entry and for the others)
ext_sender!(sender_o8_o0, 10, [O(8), O(0)]);
ext_sender!(sender_o6_o4, 10, [O(6), O(4)]);

/// The two bundled managers: the simple one knows nothing; the signalisation one knows
/// exactly NCR (0x0081) and internal signalling (0x0082) — EN 301 545-2 section 5.1 — as
/// final extensions without data.  All 65536 ids.
#[kani::proof]
pub fn bundled_managers() {
    use dvb_gse_rust::header_extension::{
        MandatoryHeaderExt, MandatoryHeaderExtensionManager, SignalisationMandatoryExtensionHeaderManager,
        SimpleMandatoryExtensionHeaderManager,
    };
    let id: u16 = kani::any();
    let simple = SimpleMandatoryExtensionHeaderManager {}.is_mandatory_header_id_known(id);
    assert!(simple == MandatoryHeaderExt::Unknown, "C13.simple_manager_knows_nothing");
    let sig = SignalisationMandatoryExtensionHeaderManager {}.is_mandatory_header_id_known(id);
    if id == 0x0081 || id == 0x0082 {
        assert!(sig == MandatoryHeaderExt::Final(0), "C13.signalisation_manager_knows_ncr_and_internal_signalling");
    } else {
        assert!(sig == MandatoryHeaderExt::Unknown, "C13.signalisation_manager_knows_nothing_else");
    }
    kani::cover!(id == 0x0081, "ncr");
    kani::cover!(id == 0x0082, "internal_signalling");
}

/// encap_ext with an empty list is an error that changes nothing.
#[kani::proof]
#[kani::unwind(8)]
pub fn sender_empty_list() {
    let pdu_arr: [u8; NPE] = kani::any();
    let mut buf_arr: [u8; NBE] = kani::any();
    let orig = buf_arr;
    let pdu_len = any_len(NPE);
    let buf_len = any_len(NBE);
    let st = any_enc_state();
    let mut enc = Encapsulator::verif_from_parts(ConstCrc(0), st.0, st.1, st.2, st.3);
    let md = EncapMetadata::new(kani::any(), any_label());
    let r = enc.encap_ext(&pdu_arr[..pdu_len], 0, md, &mut buf_arr[..buf_len], Vec::new());
    assert!(r.is_err(), "C13.empty_list_error");
    assert!(state_eq(&st, &enc.verif_parts()), "C09.encap_ext_err_state_unchanged");
    let j = any_len(NBE - 1);
    assert!(buf_arr[j] == orig[j], "C09.encap_ext_err_buffer_unchanged");
    kani::cover!(true, "reached");
    core::mem::forget(enc);
}

#[cfg(feature = "twins")]
#[kani::proof]
#[kani::unwind(10)]
pub fn twin_sender_o2() {
    let (e, _s) = mk_ext(O(2));
    let pdu_arr: [u8; NPE] = kani::any();
    let mut buf_arr: [u8; NBE] = kani::any();
    let pdu_len = any_len(NPE);
    let buf_len = any_len(NBE);
    let mut enc = any_encapsulator();
    let md = EncapMetadata::new(kani::any(), any_label());
    let r = enc.encap_ext(&pdu_arr[..pdu_len], 0, md, &mut buf_arr[..buf_len], vec![e]);
    if let Ok(EncapStatus::FragmentedPkt(_, _)) = r {
        assert!(false, "TWIN.reachable");
    }
    core::mem::forget(enc);
}

// ------------------------------------------------------------------------------------
// Receiver side: every packet that is the standard's layout of (kind, label, chain of a
// concrete shape, protocol type, payload) followed by an arbitrary tail.
// ------------------------------------------------------------------------------------
use crate::dmodels::*;
use dvb_gse_rust::gse_decap::{DecapError, DecapStatus, Decapsulator, GseDecapMemory};

pub const NBR: usize = 48;
pub const ZR: usize = 6;

/// Writes the packet into `buf`; returns (pkt_len, data_off of payload, written label type).
#[allow(clippy::too_many_arguments)]
pub fn write_ext_packet(
    buf: &mut [u8; NBR],
    first: bool,
    lt: LT,
    label: &[u8; 6],
    fid: u8,
    total_len: u16,
    specs: &[ExtSpec; 4],
    m: usize,
    ptype: u16,
    is_final: bool,
    payload: &[u8; 8],
    plen: usize,
) -> (usize, usize) {
    let (area, alen) = ext_area(specs, m, ptype, is_final);
    let mut o = 2usize;
    if first {
        buf[o] = fid;
        buf[o + 1] = (total_len >> 8) as u8;
        buf[o + 2] = total_len as u8;
        o += 3;
    }
    buf[o] = (specs[0].id >> 8) as u8;
    buf[o + 1] = specs[0].id as u8;
    o += 2;
    let mut i = 0;
    while i < lt.len() {
        buf[o] = label[i];
        o += 1;
        i += 1;
    }
    let mut e = 0;
    while e < alen {
        buf[o] = area[e];
        o += 1;
        e += 1;
    }
    let data_off = o;
    let mut p = 0;
    while p < plen {
        buf[o] = payload[p];
        o += 1;
        p += 1;
    }
    let gse_len = o - 2;
    let w = spec_encode(if first { Kind::First } else { Kind::Complete }, lt, gse_len as u16);
    buf[0] = (w >> 8) as u8;
    buf[1] = w as u8;
    (o, data_off)
}

pub fn ext_equal(e: &Extension, s: &ExtSpec) -> bool {
    let i = any_len(7);
    e.id() == s.id && ext_data_len(e) == s.dlen && (i >= s.dlen || ext_data_byte(e, i) == Some(s.data[i]))
}

/// `unknown`: index of a mandatory entry the manager does not know (None = knows all).
pub fn ext_receiver_body(classes: &[Class], first: bool, lt: LT, last_final: bool, unknown: Option<usize>) {
    let m = classes.len();
    let mut specs = [NO_EXT; 4];
    let mut mgr = ShapeMgr { ids: [0; 4], sizes: [0; 4], is_final: [false; 4], known: [false; 4] };
    let mut k = 0;
    while k < m {
        specs[k] = mk_spec(classes[k]);
        if specs[k].mandatory {
            mgr.ids[k] = specs[k].id;
            mgr.sizes[k] = specs[k].dlen as u8;
            mgr.is_final[k] = last_final && k == m - 1;
            mgr.known[k] = unknown != Some(k);
            // distinct ids among the mandatory entries of one chain
            let mut q = 0;
            while q < k {
                if specs[q].mandatory {
                    kani::assume(specs[q].id != specs[k].id);
                }
                q += 1;
            }
        }
        k += 1;
    }
    let is_final = last_final;
    let ptype: u16 = if is_final { specs[m - 1].id } else { kani::any() };
    kani::assume(is_final || ptype >= 0x600);
    let label: [u8; 6] = kani::any();
    if lt == LT::Six {
        kani::assume(label[0] != 0 || label[1] != 0 || label[2] != 0 || label[3] != 0 || label[4] != 0 || label[5] != 0);
    }
    let payload: [u8; 8] = kani::any();
    let plen = any_len(ZR);
    let fid: u8 = kani::any();
    let total_len: u16 = kani::any();
    kani::assume(total_len as usize > plen + 2 + lt.len());
    let mut buf: [u8; NBR] = kani::any();
    let (n, data_off) = write_ext_packet(&mut buf, first, lt, &label, fid, total_len, &specs, m, ptype, is_final, &payload, plen);
    let len = any_len(NBR);
    kani::assume(len >= n);
    // receiver: one free buffer, empty slot, arbitrary remembered label (must exist for re-use)
    let (mem, g) = build_ref_ghost::<1, ZR>(&crate::c13::RX_E);
    let before = count_bufs(&mem);
    let last = any_rx_label();
    kani::assume(lt != LT::ReUse || last.is_some());
    let mut d = Decapsulator::new(mem, ConstCrc(0), mgr);
    d.verif_set_last_label(last);
    let r = d.decap(&buf[..len]);
    let want_label = match lt {
        LT::Six => Label::SixBytesLabel(label),
        LT::Three => Label::ThreeBytesLabel([label[0], label[1], label[2]]),
        LT::Broadcast => Label::Broadcast,
        LT::ReUse => last.unwrap(),
    };
    if unknown.is_some() {
        match &r {
            Err((_, consumed)) => {
                assert!(*consumed == n, "C13.unknown_mandatory_consumes_own_length");
            }
            _ => assert!(false, "C13.unknown_mandatory_extension_drops_packet"),
        }
        assert!(count_bufs(&d.memory) == before && slot_unchanged(&d.memory, &g, 0), "C08.buffers_conserved");
        kani::cover!(true, "dropped");
    } else {
        let (md, out_bytes_ok) = match &r {
            Ok((DecapStatus::CompletedPkt(out, md), consumed)) => {
                assert!(!first, "C13.kind_complete");
                assert!(*consumed == n, "C13.consumes_on_wire_length");
                assert!(md.pdu_len() == plen, "C13.pdu_length");
                let i = any_len(ZR - 1);
                (md, i >= plen || out[i] == payload[i])
            }
            Ok((DecapStatus::FragmentedPkt(md), consumed)) => {
                assert!(first, "C13.kind_first");
                assert!(*consumed == n, "C13.consumes_on_wire_length");
                // payload and chain are kept in the context for the rest of the train
                let ok = match &d.memory.slots[0] {
                    Some((c, b)) => {
                        let i = any_len(ZR - 1);
                        c.pdu_len as usize == plen
                            && c.extensions_header.len() == m
                            && c.protocol_type == ptype
                            && (i >= plen || b[i] == payload[i])
                    }
                    None => false,
                };
                (md, ok)
            }
            _ => {
                assert!(false, "C13.known_chain_is_accepted");
                return;
            }
        };
        assert!(out_bytes_ok, "C13.pdu_bytes");
        assert!(md.protocol_type() == ptype, "C13.protocol_type");
        assert!(label_eq(&md.label(), &want_label), "C13.label");
        assert!(md.extensions().len() == m, "C13.same_number_of_extensions");
        let mut q = 0;
        while q < m {
            assert!(ext_equal(&md.extensions()[q], &specs[q]), "C13.same_ordered_extension_list");
            q += 1;
        }
        kani::cover!(plen > 0, "with_payload");
        kani::cover!(plen == 0, "empty_payload");
    }
    core::mem::forget(r);
    core::mem::forget(d);
}

pub const RX_E: Shape = Shape { s: 1, occ: [false, false, false], free: 1, ext: 0 };

macro_rules! ext_receiver {
    ($name:ident, $unw:literal, $stub:path, $first:expr, $lt:expr, $final:expr, $unknown:expr, [$($c:expr),+]) => {
        #[kani::proof]
        #[kani::unwind($unw)]
        #[kani::stub(dvb_gse_rust::gse_decap::read_gse_header, $stub)]
        pub fn $name() {
            ext_receiver_body(&[$($c),+], $first, $lt, $final, $unknown);
        }
    };
}

ext_receiver!(rx_complete_bc_o2, 24, crate::dmodels::hdr_complete_bc, false, LT::Broadcast, false, None, [O(2)]);
ext_receiver!(rx_complete_6b_o0, 24, crate::dmodels::hdr_complete_6b, false, LT::Six, false, None, [O(0)]);
ext_receiver!(rx_complete_3b_m3, 24, crate::dmodels::hdr_complete_3b, false, LT::Three, false, None, [M(3)]);
ext_receiver!(rx_complete_ru_o4_o6, 24, crate::dmodels::hdr_complete_ru, false, LT::ReUse, false, None, [O(4), O(6)]);
ext_receiver!(rx_complete_bc_o8, 24, crate::dmodels::hdr_complete_bc, false, LT::Broadcast, false, None, [O(8)]);
ext_receiver!(rx_complete_bc_o2_mfinal, 24, crate::dmodels::hdr_complete_bc, false, LT::Broadcast, true, None, [O(2), M(0)]);
ext_receiver!(rx_complete_bc_mfinal2, 24, crate::dmodels::hdr_complete_bc, false, LT::Broadcast, true, None, [M(2)]);
ext_receiver!(rx_complete_bc_m3_o8_m0, 24, crate::dmodels::hdr_complete_bc, false, LT::Broadcast, false, None, [M(3), O(8), M(0)]);
ext_receiver!(rx_complete_bc_o2_o4_o6_o8, 40, crate::dmodels::hdr_complete_bc, false, LT::Broadcast, false, None, [O(2), O(4), O(6), O(8)]);
ext_receiver!(rx_first_bc_o2, 24, crate::dmodels::hdr_first_bc, true, LT::Broadcast, false, None, [O(2)]);
ext_receiver!(rx_first_6b_m3_o0, 24, crate::dmodels::hdr_first_6b, true, LT::Six, false, None, [M(3), O(0)]);
ext_receiver!(rx_first_bc_mfinal0, 24, crate::dmodels::hdr_first_bc, true, LT::Broadcast, true, None, [M(0)]);
ext_receiver!(rx_complete_bc_unknown_m3, 24, crate::dmodels::hdr_complete_bc, false, LT::Broadcast, false, Some(0), [M(3)]);
ext_receiver!(rx_complete_bc_unknown_second, 24, crate::dmodels::hdr_complete_bc, false, LT::Broadcast, false, Some(1), [O(2), M(0)]);
ext_receiver!(rx_first_bc_unknown_m0, 24, crate::dmodels::hdr_first_bc, true, LT::Broadcast, false, Some(0), [M(0)]);

#[cfg(feature = "twins")]
#[kani::proof]
#[kani::unwind(10)]
#[kani::stub(dvb_gse_rust::gse_decap::read_gse_header, crate::dmodels::hdr_complete_bc)]
pub fn twin_rx_complete_bc_o2() {
    let mut specs = [NO_EXT; 4];
    specs[0] = mk_spec(O(2));
    let mgr = ShapeMgr { ids: [0; 4], sizes: [0; 4], is_final: [false; 4], known: [false; 4] };
    let payload: [u8; 8] = kani::any();
    let mut buf: [u8; NBR] = kani::any();
    let (n, _off) = write_ext_packet(&mut buf, false, LT::Broadcast, &[0; 6], 0, 9, &specs, 1, 0x0800, false, &payload, 3);
    let (mem, _g) = build_ref_ghost::<1, ZR>(&RX_E);
    let mut d = Decapsulator::new(mem, ConstCrc(0), mgr);
    let r = d.decap(&buf[..n]);
    if r.is_ok() {
        assert!(false, "TWIN.reachable");
    }
    core::mem::forget(r);
    core::mem::forget(d);
}

/// Lean first-fragment-with-extension receiver lemma for the quick tier: broadcast label,
/// ONE optional 2-byte extension (symbolic id low byte and data), payload 0..=2 bytes,
/// straight-line packet construction (no writer loops), arbitrary total length and tail.
/// A well-formed such packet (total length > carried payload) is accepted, reports the
/// extension, the protocol type and the on-wire length, and leaves the context with the
/// payload at offset 0 and the extension list.
#[kani::proof]
#[kani::unwind(6)]
#[kani::stub(dvb_gse_rust::gse_decap::read_gse_header, crate::dmodels::hdr_first_bc)]
pub fn rx_first_bc_o2_lean() {
    const NBL: usize = 16;
    let mut buf: [u8; NBL] = kani::any();
    let low: u8 = kani::any();
    let d0: u8 = kani::any();
    let d1: u8 = kani::any();
    let ptype: u16 = kani::any();
    kani::assume(ptype >= 0x600);
    let plen = any_len(2);
    let fid: u8 = kani::any();
    let total_len: u16 = kani::any();
    // sender-produced: total length = 2 + PDU length (broadcast label), PDU length > carried payload
    kani::assume(total_len as usize > plen + 2);
    // [hdr 2][fid 1][total 2][ext id 2][data 2][ptype 2][payload plen]
    let gse_len = 1 + 2 + 2 + 2 + 2 + plen;
    let w = spec_encode(Kind::First, LT::Broadcast, gse_len as u16);
    buf[0] = (w >> 8) as u8;
    buf[1] = w as u8;
    buf[2] = fid;
    buf[3] = (total_len >> 8) as u8;
    buf[4] = total_len as u8;
    buf[5] = 0x02;
    buf[6] = low;
    buf[7] = d0;
    buf[8] = d1;
    buf[9] = (ptype >> 8) as u8;
    buf[10] = ptype as u8;
    let n = gse_len + 2;
    let len = any_len(NBL);
    kani::assume(len >= n);
    let (mut mem, _g) = build_ref_ghost::<1, ZR>(&RX_E);
    mem.slot_hint = Some(0);
    let mut d = Decapsulator::new(mem, ConstCrc(0), crate::extm::TestMgr);
    d.verif_set_last_label(any_rx_label());
    let r = d.decap(&buf[..len]);
    match &r {
        Ok((DecapStatus::FragmentedPkt(md), consumed)) => {
            assert!(*consumed == n, "C13.consumes_on_wire_length");
            assert!(md.protocol_type() == ptype, "C13.protocol_type");
            assert!(md.extensions().len() == 1, "C13.same_number_of_extensions");
            let e = &md.extensions()[0];
            assert!(e.id() == 0x0200 | low as u16 && ext_data_byte(e, 0) == Some(d0) && ext_data_byte(e, 1) == Some(d1),
                    "C13.same_ordered_extension_list");
            match &d.memory.slots[0] {
                Some((c, b)) => {
                    assert!(c.pdu_len as usize == plen && c.total_len == total_len && c.frag_id == fid && c.protocol_type == ptype,
                            "C13.first_fragment_context");
                    assert!(c.extensions_header.len() == 1, "C13.context_keeps_extensions");
                    if plen > 0 {
                        assert!(b[0] == buf[11], "C13.pdu_bytes");
                    }
                    if plen > 1 {
                        assert!(b[1] == buf[12], "C13.pdu_bytes");
                    }
                }
                None => assert!(false, "C13.first_fragment_opens_a_context"),
            }
            kani::cover!(plen == 2 && (total_len as usize) == 5, "total_length_smaller_than_extension_area_plus_payload");
            kani::cover!(plen == 0, "header_only");
        }
        _ => assert!(false, "C13.known_chain_is_accepted"),
    }
    core::mem::forget(r);
    core::mem::forget(d);
}

// ---- the receiver's walker on long chains (needs the verif_walk_extensions hook) ----

/// Chain of exactly N extensions (N concrete per harness: a symbolic chain length ran CBMC out
/// of 12 GB): entry k is optional with two data bytes when bit k of `two` is set, data-less
/// optional otherwise, except that entry `mand` (if < N) is the known non-final mandatory
/// extension 0x0011; ids, data bytes, final protocol type symbolic; arbitrary tail.  The walker
/// returns exactly these extensions in order, the protocol type and the bytes walked.
pub fn walker_chain<const N: usize, const NB: usize>(two: u32, mand: usize) {
    let ids: [u16; N] = kani::any();
    let data: [[u8; 2]; N] = kani::any();
    let ptype: u16 = kani::any();
    kani::assume(ptype >= 0x600);
    let mut buf = [0u8; NB];
    let mut o = 0;
    let mut k = 0;
    while k < N {
        let id = ids[k];
        let has2 = (two >> k) & 1 == 1;
        if k == mand {
            kani::assume(id == 0x0011);
        } else if has2 {
            kani::assume((id >> 8) & 0x7 == 2 && id < 0x600);
        } else {
            kani::assume((id >> 8) & 0x7 == 1 && id < 0x600);
        }
        if k > 0 {
            buf[o] = (id >> 8) as u8;
            buf[o + 1] = id as u8;
            o += 2;
        }
        if has2 && k != mand {
            buf[o] = data[k][0];
            buf[o + 1] = data[k][1];
            o += 2;
        }
        k += 1;
    }
    buf[o] = (ptype >> 8) as u8;
    buf[o + 1] = ptype as u8;
    o += 2;
    let tail = any_len(4);
    kani::assume(o + tail <= NB);
    let r = dvb_gse_rust::gse_decap::verif_walk_extensions(&buf[..o + tail], &TestMgr, ids[0]);
    match &r {
        Ok((exts, pt, walked)) => {
            assert!(exts.len() == N, "C13.walker_returns_every_extension_of_the_chain");
            assert!(*pt == ptype, "C13.walker_returns_the_final_protocol_type");
            assert!(*walked == o, "C13.walker_consumes_exactly_the_chain");
            let j = any_len(N - 1);
            assert!(exts[j].id() == ids[j], "C13.walker_keeps_ids_in_order");
            if (two >> j) & 1 == 1 && j != mand {
                assert!(ext_data_len(&exts[j]) == 2 && ext_data_byte(&exts[j], 0) == Some(data[j][0]) && ext_data_byte(&exts[j], 1) == Some(data[j][1]),
                        "C13.walker_keeps_data");
            } else {
                assert!(ext_data_len(&exts[j]) == 0, "C13.walker_keeps_data");
            }
            kani::cover!(true, "accepted");
        }
        Err(_) => assert!(false, "C13.known_chain_is_accepted"),
    }
    core::mem::forget(r);
}

/// Chain of N data-less optional extensions with an unknown mandatory id at place `bad`.
pub fn walker_chain_unknown<const N: usize, const NB: usize>(bad: usize) {
    let ids: [u16; N] = kani::any();
    let mut buf = [0u8; NB];
    let mut o = 0;
    let mut k = 0;
    while k < N {
        let id = ids[k];
        if k == bad {
            kani::assume(id < 0x100 && id != 0x10 && id != 0x11 && id != 0x20 && id != 0x21);
        } else {
            kani::assume((id >> 8) & 0x7 == 1 && id < 0x600);
        }
        if k > 0 {
            buf[o] = (id >> 8) as u8;
            buf[o + 1] = id as u8;
            o += 2;
        }
        k += 1;
    }
    buf[o] = 0x08;
    buf[o + 1] = 0x00;
    o += 2;
    let r = dvb_gse_rust::gse_decap::verif_walk_extensions(&buf[..o], &TestMgr, ids[0]);
    assert!(matches!(r, Err(true)), "C13.unknown_mandatory_extension_drops_the_packet");
    kani::cover!(true, "refused");
    core::mem::forget(r);
}

#[kani::proof]
#[kani::unwind(12)]
pub fn walker_chain_5_mixed() {
    walker_chain::<5, 24>(0b01010, 5);
}

#[kani::proof]
#[kani::unwind(12)]
pub fn walker_chain_9_mand_last() {
    walker_chain::<9, 40>(0b000100010, 8);
}

#[kani::proof]
#[kani::unwind(12)]
pub fn walker_chain_10_optional() {
    walker_chain::<10, 48>(0b1000000001, 10);
}

#[kani::proof]
#[kani::unwind(12)]
pub fn walker_chain_9_unknown_last() {
    walker_chain_unknown::<9, 24>(8);
}

#[kani::proof]
#[kani::unwind(12)]
pub fn walker_chain_6_unknown_fifth() {
    walker_chain_unknown::<6, 16>(4);
}

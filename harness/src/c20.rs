//! C20: the packet structs of `utils` serialise and parse consistently with the codec.
use crate::dmodels::*;
use crate::extm::*;
use crate::models::*;
use crate::spec::*;
use dvb_gse_rust::gse_encap::{ContextFrag, EncapMetadata, EncapStatus, Encapsulator};
use dvb_gse_rust::label::Label;
use dvb_gse_rust::utils::{GseCompletePacket, GseEndFragPacket, GseFirstFragPacket, GseIntermediatePacket, Serialisable};

const NP: usize = 8;
const NB: usize = 32;

/// A label a well-formed start/complete packet description can carry.
fn any_desc_label() -> Label {
    any_label()
}

/// Complete: parse(generate(x)) == x; generate(x) is the standard's layout; and it is byte
/// for byte what the real encap writes for the same fields.
#[kani::proof]
#[kani::unwind(10)]
pub fn complete_roundtrip_and_codec() {
    let pdu: [u8; NP] = kani::any();
    let pdu_len = any_len(NP);
    let label = any_desc_label();
    let ptype: u16 = kani::any();
    let gse_len = (2 + label.len() + pdu_len) as u16;
    let x = GseCompletePacket::new(gse_len, ptype, label, &pdu[..pdu_len]);
    let mut buf: [u8; NB] = kani::any();
    x.generate(&mut buf);
    let n = gse_len as usize + 2;
    // layout per the standard
    let l = layout(be16(&buf, 0));
    assert!(l.is_some(), "C20.generated_header_parses");
    let l = l.unwrap();
    assert!(l.kind == Kind::Complete && l.lt == lt_of_label(&label) && l.pkt_len == n, "C20.complete_header");
    assert!(be16(&buf, 2) == ptype, "C20.complete_protocol_type");
    let i = any_len(NP - 1);
    if i < pdu_len {
        assert!(buf[l.data_off + i] == pdu[i], "C20.complete_payload");
    }
    // parse back
    match GseCompletePacket::parse(&buf[..n]) {
        Ok(y) => assert!(y == x, "C20.complete_parse_of_generate_is_identity"),
        Err(_) => assert!(false, "C20.complete_parse_accepts_generated"),
    }
    // same bytes as the encapsulator (re-use off so that the label is written as given)
    if ptype >= 0x600 && !is_zero6(&label) {
        let mut enc = Encapsulator::verif_from_parts(ConstCrc(0), false, 0, 0, None);
        let mut ebuf: [u8; NB] = kani::any();
        let r = enc.encap(&pdu[..pdu_len], 0, EncapMetadata::new(ptype, label), &mut ebuf[..n]);
        assert!(r == Ok(EncapStatus::CompletedPkt(n as u16)), "C20.encap_produces_same_length");
        let j = any_len(NB - 1);
        if j < n {
            assert!(ebuf[j] == buf[j], "C20.generate_equals_encap_bytes");
            kani::cover!(j > 10, "byte_index_deep");
        }
        core::mem::forget(enc);
    }
    kani::cover!(label.len() == 6 && pdu_len == NP, "largest");
}

#[kani::proof]
#[kani::unwind(10)]
pub fn first_roundtrip() {
    let pdu: [u8; NP] = kani::any();
    let pdu_len = any_len(NP);
    let label = any_desc_label();
    let ptype: u16 = kani::any();
    let fid: u8 = kani::any();
    let total: u16 = kani::any();
    let gse_len = (1 + 2 + 2 + label.len() + pdu_len) as u16;
    let x = GseFirstFragPacket::new(gse_len, fid, total, ptype, label, &pdu[..pdu_len]);
    let mut buf: [u8; NB] = kani::any();
    x.generate(&mut buf);
    let n = gse_len as usize + 2;
    let l = layout(be16(&buf, 0));
    assert!(l.is_some(), "C20.generated_header_parses");
    let l = l.unwrap();
    assert!(l.kind == Kind::First && l.lt == lt_of_label(&label) && l.pkt_len == n, "C20.first_header");
    assert!(buf[2] == fid && be16(&buf, 3) == total && be16(&buf, 5) == ptype, "C20.first_fields");
    let li = any_len(5);
    if li < label.len() {
        assert!(buf[7 + li] == label_byte(&label, li), "C20.first_label_bytes");
    }
    let i = any_len(NP - 1);
    if i < pdu_len {
        assert!(buf[l.data_off + i] == pdu[i], "C20.first_payload");
    }
    match GseFirstFragPacket::parse(&buf[..n]) {
        Ok(y) => assert!(y == x, "C20.first_parse_of_generate_is_identity"),
        Err(_) => assert!(false, "C20.first_parse_accepts_generated"),
    }
    kani::cover!(label.len() == 3 && pdu_len > 0, "label3");
}

/// Intermediate and End: round trip, layout, and equality with the real encap_frag output.
#[kani::proof]
#[kani::unwind(10)]
pub fn continuation_roundtrip_and_codec() {
    let pdu: [u8; NP] = kani::any();
    let pdu_len = any_len(NP);
    let fid: u8 = kani::any();
    let crc: u32 = kani::any();
    let is_end: bool = kani::any();
    let mut buf: [u8; NB] = kani::any();
    let n;
    if is_end {
        let gse_len = (1 + pdu_len + 4) as u16;
        n = gse_len as usize + 2;
        let x = GseEndFragPacket::new(gse_len, fid, &pdu[..pdu_len], crc);
        x.generate(&mut buf);
        match GseEndFragPacket::parse(&buf[..n]) {
            Ok(y) => assert!(y == x, "C20.end_parse_of_generate_is_identity"),
            Err(_) => assert!(false, "C20.end_parse_accepts_generated"),
        }
        let l = layout(be16(&buf, 0)).unwrap();
        assert!(l.kind == Kind::End && l.lt == LT::ReUse && l.pkt_len == n, "C20.end_header");
        assert!(be32(&buf, l.crc_off.unwrap()) == crc, "C20.end_crc");
    } else {
        kani::assume(pdu_len >= 1);
        let gse_len = (1 + pdu_len) as u16;
        n = gse_len as usize + 2;
        let x = GseIntermediatePacket::new(gse_len, fid, &pdu[..pdu_len]);
        x.generate(&mut buf);
        match GseIntermediatePacket::parse(&buf[..n]) {
            Ok(y) => assert!(y == x, "C20.intermediate_parse_of_generate_is_identity"),
            Err(_) => assert!(false, "C20.intermediate_parse_accepts_generated"),
        }
        let l = layout(be16(&buf, 0)).unwrap();
        assert!(l.kind == Kind::Intermediate && l.lt == LT::ReUse && l.pkt_len == n, "C20.intermediate_header");
    }
    assert!(buf[2] == fid, "C20.continuation_frag_id");
    // the real encap_frag writes the same bytes for the same fields: context at offset 0 of a
    // PDU that is exactly this payload (end), or one byte longer with a buffer that only
    // takes this payload (intermediate)
    let enc = Encapsulator::new(ConstCrc(0));
    let mut ebuf: [u8; NB] = kani::any();
    let ctx = ContextFrag::new(fid, crc, 0);
    if is_end {
        let r = enc.encap_frag(&pdu[..pdu_len], &ctx, &mut ebuf[..n]);
        assert!(r == Ok(EncapStatus::CompletedPkt(n as u16)), "C20.encap_frag_produces_same_length");
    } else {
        let longer: [u8; NP + 1] = kani::any();
        let mut src = longer;
        let mut q = 0;
        while q < NP {
            src[q] = pdu[q];
            q += 1;
        }
        let r = enc.encap_frag(&src[..pdu_len + 1], &ctx, &mut ebuf[..n]);
        assert!(matches!(r, Ok(EncapStatus::FragmentedPkt(k, _)) if k as usize == n), "C20.encap_frag_produces_same_length");
    }
    let j = any_len(NB - 1);
    if j < n {
        assert!(ebuf[j] == buf[j], "C20.generate_equals_encap_frag_bytes");
    }
    kani::cover!(is_end && pdu_len == 0, "end_crc_only");
    kani::cover!(!is_end && pdu_len == NP, "intermediate_full");
}

#[cfg(feature = "twins")]
#[kani::proof]
#[kani::unwind(10)]
pub fn twin_complete() {
    let pdu: [u8; NP] = kani::any();
    let x = GseCompletePacket::new(10, 0x0800, Label::Broadcast, &pdu[..]);
    let mut buf: [u8; NB] = kani::any();
    x.generate(&mut buf);
    if buf[0] == 0xE0 {
        assert!(false, "TWIN.reachable");
    }
}

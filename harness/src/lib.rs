//! Kani proof harnesses over the real `dvb_gse_rust` crate (path dependency on /repo).
//! One module per property, each behind its own cargo feature so that a check only
//! compiles (and Kani only generates code for) its own harnesses.
#![allow(dead_code)]
#![allow(unused_imports)]
#![allow(clippy::all)]

pub mod spec;
#[cfg(kani)]
pub mod models;
#[cfg(kani)]
pub mod extm;
#[cfg(kani)]
pub mod dmodels;
#[cfg(all(kani, feature = "rx"))]
pub mod rx;
#[cfg(all(kani, feature = "rx"))]
pub mod rxl;

#[cfg(all(kani, feature = "c01"))]
pub mod c01;
#[cfg(all(kani, feature = "c02"))]
pub mod c02;
#[cfg(all(kani, feature = "c03"))]
pub mod c03b;
#[cfg(all(kani, feature = "c04"))]
pub mod c04;
#[cfg(all(kani, feature = "c05"))]
pub mod c05;
#[cfg(all(kani, feature = "c06"))]
pub mod c06;
#[cfg(all(kani, feature = "c09"))]
pub mod c09;
#[cfg(all(kani, feature = "c10"))]
pub mod c10;
#[cfg(all(kani, feature = "c11"))]
pub mod c11;
#[cfg(all(kani, feature = "c15"))]
pub mod c15;
#[cfg(all(kani, feature = "c16"))]
pub mod c16;
#[cfg(all(kani, feature = "c17"))]
pub mod c17;
#[cfg(all(kani, feature = "c18"))]
pub mod c18;
#[cfg(all(kani, feature = "c19"))]
pub mod c19;
#[cfg(all(kani, feature = "c20"))]
pub mod c20;
#[cfg(all(kani, feature = "c12"))]
pub mod c12;
#[cfg(all(kani, feature = "c13"))]
pub mod c13;
#[cfg(all(kani, feature = "c14"))]
pub mod c14;

/// Native replay of solver counterexamples: `VERIF_REPLAY_FILE` names a file holding
/// `use crate::<module>::*;` followed by the unit tests printed by Kani's concrete playback.
#[cfg(all(kani, feature = "replay"))]
mod replay_tests {
    include!(env!("VERIF_REPLAY_FILE"));
}

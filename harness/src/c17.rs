//! C17: the bundled fragment memory honours the memory-trait contract.
//! Contract step lemmas, stated once and instantiated on the real SimpleGseMemory and on
//! the harness's RefMem (DESIGN 3.4): from every state of a concrete heap shape, each trait
//! operation with symbolic arguments returns what the contract says, hands back the very
//! same buffer (pointer identity) where the contract says so, leaves buffer contents alone,
//! and leaves a state that drains (take_frag per saved id, new_pdu until underflow) to the
//! expected contexts / buffers.
use crate::dmodels::*;
use crate::extm::*;
use crate::models::*;
use dvb_gse_rust::gse_decap::{DecapContext, DecapMemoryError, GseDecapMemory, SimpleGseMemory};
use dvb_gse_rust::label::Label;

pub const Z: usize = 4;

/// Build a memory of type M in shape `sh` (storage size Z) through the public trait.
pub fn build<M: GseDecapMemory>(sh: &Shape) -> (M, Ghost) {
    let mut m = M::new(sh.s, Z, 0, 0);
    let mut g = Ghost { slot: [None, None, None], free: [NOBUF; 4], nfree: 0 };
    let mut k = 0;
    while k < sh.s {
        if sh.occ[k] {
            let ctx = any_context(sh.s, k, Z, sh.ext);
            let (b, bg) = mk_buf(Z);
            g.slot[k] = Some((ctx_ghost(&ctx), bg));
            let r = m.save_frag((ctx, b));
            assert!(r.is_ok(), "C17.save_into_empty_slot_accepted");
        }
        k += 1;
    }
    let mut f = 0;
    while f < sh.free {
        let (b, bg) = mk_buf(if f == 1 { 6 } else { Z });
        g.free[f] = bg;
        let r = m.provision_storage(b);
        assert!(r.is_ok(), "C17.provision_below_capacity_accepted");
        f += 1;
    }
    g.nfree = sh.free;
    (m, g)
}

/// The free-list capacity is fixed at construction (slots + 2): in the state reached after
/// the operation, one more buffer is accepted exactly when fewer than that are free.
/// (Probed in the 1- and 2-slot shapes only: the capacity rule does not depend on the slot
/// count beyond the "+ 2", and the 3-slot shapes are the expensive ones.)
pub fn probe_capacity<M: GseDecapMemory>(m: &mut M, g: &mut Ghost, s: usize) {
    let (b, bg) = mk_buf(Z);
    match m.provision_storage(b) {
        Ok(()) => {
            assert!(g.nfree < s + 2, "C17.capacity_is_fixed_at_construction");
            if g.nfree < 4 {
                g.free[g.nfree] = bg;
            }
            g.nfree += 1;
        }
        Err(DecapMemoryError::StorageOverflow(x)) | Err(DecapMemoryError::BufferTooSmall(x)) => {
            assert!(g.nfree >= s + 2, "C17.provision_refused_only_when_full_or_small");
            assert!(buf_matches(&x, &bg), "C17.refused_buffer_handed_back");
            core::mem::forget(x);
        }
        Err(_) => assert!(false, "C17.refused_buffer_handed_back"),
    }
}

/// Drain the memory and compare with the expected ghost state.
pub fn drain_and_check<M: GseDecapMemory>(m: &mut M, g: &Ghost, s: usize) {
    let mut k = 0;
    while k < s {
        match &g.slot[k] {
            Some((cg, bg)) => match m.take_frag(cg.frag_id) {
                Ok((c, b)) => {
                    assert!(ctx_matches(&c, cg), "C17.take_returns_saved_context");
                    assert!(buf_matches(&b, bg), "C17.take_returns_saved_buffer_unmodified");
                    core::mem::forget((c, b));
                }
                Err(_) => assert!(false, "C17.saved_context_is_retrievable"),
            },
            None => {}
        }
        k += 1;
    }
    // free bag: exactly nfree buffers, each one of the expected pointers, then underflow
    let mut n = 0;
    while n < g.nfree {
        match m.new_pdu() {
            Ok(b) => {
                let mut hit = false;
                let mut q = 0;
                while q < g.nfree {
                    if b.as_ptr() == g.free[q].ptr {
                        hit = true;
                        assert!(buf_matches(&b, &g.free[q]), "C17.free_buffer_unmodified");
                    }
                    q += 1;
                }
                assert!(hit, "C17.free_bag_holds_only_provisioned_buffers");
                core::mem::forget(b);
            }
            Err(_) => assert!(false, "C17.new_pdu_fails_only_when_empty"),
        }
        n += 1;
    }
    match m.new_pdu() {
        Err(_) => {}
        Ok(_) => assert!(false, "C17.free_bag_size"),
    }
}

pub fn op_provision<M: GseDecapMemory>(sh: &Shape, small: bool) {
    let (mut m, mut g) = build::<M>(sh);
    let (b, bg) = mk_buf(if small { 3 } else { Z });
    let cap = sh.s + 2;
    let r = m.provision_storage(b);
    match r {
        Ok(()) => {
            assert!(g.nfree < cap, "C17.provision_refused_when_full");
            assert!(!small, "C17.provision_refuses_small_buffer");
            g.free[g.nfree] = bg;
            g.nfree += 1;
            kani::cover!(true, "accepted");
        }
        Err(DecapMemoryError::StorageOverflow(x)) | Err(DecapMemoryError::BufferTooSmall(x)) => {
            // refused only when the free list is full or the buffer is too small, and the very
            // same buffer comes back (which of the two variants is used is not part of the contract)
            assert!(g.nfree >= cap || small, "C17.provision_refused_only_when_full_or_small");
            assert!(buf_matches(&x, &bg), "C17.refused_buffer_handed_back");
            kani::cover!(g.nfree >= cap, "overflow");
            kani::cover!(small && g.nfree < cap, "too_small");
            core::mem::forget(x);
        }
        Err(_) => assert!(false, "C17.refused_buffer_handed_back"),
    }
    if g.nfree <= 3 && sh.s <= 2 {
        probe_capacity(&mut m, &mut g, sh.s);
    }
    drain_and_check(&mut m, &g, sh.s);
    core::mem::forget(m);
}

pub fn op_new_pdu<M: GseDecapMemory>(sh: &Shape) {
    let (mut m, mut g) = build::<M>(sh);
    let r = m.new_pdu();
    match r {
        Ok(b) => {
            assert!(g.nfree > 0, "C17.new_pdu_from_empty_bag");
            // remove the returned buffer from the expected bag
            let mut q = 0;
            let mut hit = false;
            while q < g.nfree {
                if !hit && b.as_ptr() == g.free[q].ptr {
                    hit = true;
                    assert!(buf_matches(&b, &g.free[q]), "C17.free_buffer_unmodified");
                    g.free[q] = g.free[g.nfree - 1];
                }
                q += 1;
            }
            assert!(hit, "C17.new_pdu_returns_a_provisioned_buffer");
            g.nfree -= 1;
            core::mem::forget(b);
            kani::cover!(true, "ok");
        }
        Err(_) => {
            assert!(g.nfree == 0, "C17.new_pdu_fails_only_when_empty");
            kani::cover!(true, "underflow");
        }
    }
    if g.nfree <= 3 && sh.s <= 2 {
        probe_capacity(&mut m, &mut g, sh.s);
    }
    drain_and_check(&mut m, &g, sh.s);
    core::mem::forget(m);
}

pub fn op_take<M: GseDecapMemory>(sh: &Shape) {
    let (mut m, mut g) = build::<M>(sh);
    let id: u8 = kani::any();
    let idx = id as usize % sh.s;
    let r = m.take_frag(id);
    let expected_hit = match &g.slot[idx] {
        Some((cg, _)) => cg.frag_id == id,
        None => false,
    };
    match r {
        Ok((c, b)) => {
            assert!(expected_hit, "C17.take_frag_unknown_id_is_undefined");
            let (cg, bg) = g.slot[idx].unwrap();
            assert!(ctx_matches(&c, &cg), "C17.take_returns_saved_context");
            assert!(buf_matches(&b, &bg), "C17.take_returns_saved_buffer_unmodified");
            g.slot[idx] = None;
            core::mem::forget((c, b));
            kani::cover!(true, "hit");
        }
        Err(DecapMemoryError::UndefinedId) => {
            assert!(!expected_hit, "C17.saved_context_is_retrievable");
            // memory unchanged: in particular a context of ANOTHER id in that slot survives
            kani::cover!(g.slot[idx].is_some(), "aliasing_id");
            kani::cover!(g.slot[idx].is_none(), "empty_slot");
        }
        Err(_) => assert!(false, "C17.take_error_kind"),
    }
    if g.nfree <= 3 && sh.s <= 2 {
        probe_capacity(&mut m, &mut g, sh.s);
    }
    drain_and_check_labelled(&mut m, &g, sh.s);
    core::mem::forget(m);
}

/// Same as drain_and_check but with the label that names the take_frag clause.
pub fn drain_and_check_labelled<M: GseDecapMemory>(m: &mut M, g: &Ghost, s: usize) {
    let mut k = 0;
    while k < s {
        if let Some((cg, bg)) = &g.slot[k] {
            match m.take_frag(cg.frag_id) {
                Ok((c, b)) => {
                    assert!(ctx_matches(&c, cg) && buf_matches(&b, bg), "C17.take_frag_other_id_leaves_memory_unchanged");
                    core::mem::forget((c, b));
                }
                Err(_) => assert!(false, "C17.take_frag_other_id_leaves_memory_unchanged"),
            }
        }
        k += 1;
    }
}

pub fn op_new_frag<M: GseDecapMemory>(sh: &Shape) {
    let (mut m, mut g) = build::<M>(sh);
    let slot: usize = any_len(sh.s - 1);
    let ctx = any_context(sh.s, slot, Z, 0);
    let cg = ctx_ghost(&ctx);
    let r = m.new_frag(ctx);
    match r {
        Ok((c, b)) => {
            assert!(ctx_matches(&c, &cg), "C17.new_frag_returns_given_context");
            match &g.slot[slot] {
                Some((_, bg)) => {
                    // previous context replaced, its buffer reused
                    assert!(buf_matches(&b, bg), "C17.new_frag_reuses_slot_buffer");
                    g.slot[slot] = None;
                    kani::cover!(true, "reused");
                }
                None => {
                    let mut q = 0;
                    let mut hit = false;
                    while q < g.nfree {
                        if !hit && b.as_ptr() == g.free[q].ptr {
                            hit = true;
                            assert!(buf_matches(&b, &g.free[q]), "C17.free_buffer_unmodified");
                            g.free[q] = g.free[g.nfree - 1];
                        }
                        q += 1;
                    }
                    assert!(hit, "C17.new_frag_takes_a_free_buffer");
                    g.nfree -= 1;
                    kani::cover!(true, "fresh");
                }
            }
            core::mem::forget((c, b));
        }
        Err(_) => {
            assert!(g.slot[slot].is_none() && g.nfree == 0, "C17.new_frag_fails_only_without_buffer");
            kani::cover!(true, "underflow");
        }
    }
    if g.nfree <= 3 && sh.s <= 2 {
        probe_capacity(&mut m, &mut g, sh.s);
    }
    drain_and_check(&mut m, &g, sh.s);
    core::mem::forget(m);
}

pub fn op_save<M: GseDecapMemory>(sh: &Shape) {
    let (mut m, mut g) = build::<M>(sh);
    let slot: usize = any_len(sh.s - 1);
    let ctx = any_context(sh.s, slot, Z, 0);
    let cg = ctx_ghost(&ctx);
    let (b, bg) = mk_buf(Z);
    let r = m.save_frag((ctx, b));
    match r {
        Ok(()) => {
            assert!(g.slot[slot].is_none(), "C17.save_into_occupied_slot_refused");
            g.slot[slot] = Some((cg, bg));
            kani::cover!(true, "saved");
        }
        Err(_) => {
            assert!(g.slot[slot].is_some(), "C17.save_into_empty_slot_accepted");
            kani::cover!(true, "refused");
        }
    }
    if g.nfree <= 3 && sh.s <= 2 {
        probe_capacity(&mut m, &mut g, sh.s);
    }
    drain_and_check(&mut m, &g, sh.s);
    core::mem::forget(m);
}

macro_rules! contract {
    ($name:ident, $unw:literal, $m:ty, $body:expr) => {
        #[kani::proof]
        #[kani::unwind($unw)]
        #[kani::stub(core::mem::swap, crate::dmodels::swap_stub)]
        pub fn $name() {
            $body
        }
    };
}

const S1E0: Shape = Shape { s: 1, occ: [false, false, false], free: 0, ext: 0 };
const S1E2: Shape = Shape { s: 1, occ: [false, false, false], free: 2, ext: 0 };
const S1E3: Shape = Shape { s: 1, occ: [false, false, false], free: 3, ext: 0 };
const S1O0: Shape = Shape { s: 1, occ: [true, false, false], free: 0, ext: 0 };
const S1O1: Shape = Shape { s: 1, occ: [true, false, false], free: 1, ext: 1 };
const S1O3: Shape = Shape { s: 1, occ: [true, false, false], free: 3, ext: 0 };
const S1O2: Shape = Shape { s: 1, occ: [true, false, false], free: 2, ext: 0 };
const S2O2: Shape = Shape { s: 2, occ: [true, true, false], free: 2, ext: 0 };
const S1OFULL: Shape = Shape { s: 1, occ: [true, false, false], free: 3, ext: 0 };
const S2A: Shape = Shape { s: 2, occ: [true, false, false], free: 1, ext: 0 };
const S2B: Shape = Shape { s: 2, occ: [true, true, false], free: 0, ext: 0 };
const S2F: Shape = Shape { s: 2, occ: [false, true, false], free: 4, ext: 0 };
const S3A: Shape = Shape { s: 3, occ: [true, false, true], free: 2, ext: 0 };

type Sm = SimpleGseMemory;
contract!(simple_provision_s1_empty, 6, Sm, op_provision::<Sm>(&S1E0, false));
contract!(simple_provision_s1_some, 6, Sm, op_provision::<Sm>(&S1E2, false));
contract!(simple_provision_s1_full, 6, Sm, op_provision::<Sm>(&S1O3, false));
contract!(simple_provision_s1_small, 6, Sm, op_provision::<Sm>(&S1O1, true));
contract!(simple_provision_s1_small_full, 6, Sm, op_provision::<Sm>(&S1E3, true));
contract!(simple_provision_s2_full, 6, Sm, op_provision::<Sm>(&S2F, false));
// occupied slots do not count against the free-list capacity
contract!(simple_provision_s1_occ_free2, 6, Sm, op_provision::<Sm>(&S1O2, false));
contract!(simple_provision_s2_occ2_free2, 6, Sm, op_provision::<Sm>(&S2O2, false));
contract!(simple_new_pdu_s1_empty, 6, Sm, op_new_pdu::<Sm>(&S1O0));
contract!(simple_new_pdu_s1_some, 6, Sm, op_new_pdu::<Sm>(&S1E2));
contract!(simple_new_pdu_s2, 6, Sm, op_new_pdu::<Sm>(&S2A));
contract!(simple_take_s1_empty, 6, Sm, op_take::<Sm>(&S1E2));
contract!(simple_take_s1_occ, 6, Sm, op_take::<Sm>(&S1O1));
contract!(simple_take_s2_one, 6, Sm, op_take::<Sm>(&S2A));
contract!(simple_take_s2_both, 6, Sm, op_take::<Sm>(&S2B));
contract!(simple_new_frag_s1_empty_nobuf, 6, Sm, op_new_frag::<Sm>(&S1E0));
contract!(simple_new_frag_s1_empty, 6, Sm, op_new_frag::<Sm>(&S1E2));
contract!(simple_new_frag_s1_occ, 6, Sm, op_new_frag::<Sm>(&S1O1));
contract!(simple_new_frag_s2, 6, Sm, op_new_frag::<Sm>(&S2A));
// occupied slot AND full free list: the capacity must still be the configured one afterwards
contract!(simple_new_frag_s1_occ_full, 6, Sm, op_new_frag::<Sm>(&S1OFULL));
contract!(simple_save_s1_empty, 6, Sm, op_save::<Sm>(&S1E2));
contract!(simple_save_s1_occ, 6, Sm, op_save::<Sm>(&S1O0));
contract!(simple_save_s2, 6, Sm, op_save::<Sm>(&S2A));
// three slots (thorough)
contract!(simple_take_s3, 6, Sm, op_take::<Sm>(&S3A));
contract!(simple_new_frag_s3, 6, Sm, op_new_frag::<Sm>(&S3A));
contract!(simple_save_s3, 6, Sm, op_save::<Sm>(&S3A));
contract!(simple_provision_s3, 6, Sm, op_provision::<Sm>(&S3A, false));

/// Native replay of a counterexample of the MIR->SMT slot-index member (vp/mirsmt.py): a memory
/// with `n` slots, two contexts with different ids `a` and `b`; both must be retrievable intact
/// and nothing may panic.  Concrete values only (runs under `cargo kani playback` as a plain test).
pub fn slot_replay(n: usize, a: u8, b: u8) {
    assert!(a != b);
    let mut m = Sm::new(n, Z, 0, 0);
    assert!(m.provision_storage(vec![0u8; Z].into_boxed_slice()).is_ok(), "C17.provision_below_capacity_accepted");
    assert!(m.provision_storage(vec![0u8; Z].into_boxed_slice()).is_ok(), "C17.provision_below_capacity_accepted");
    let ca = DecapContext::new(Label::Broadcast, 0x1111, a, 10, 0, false, Vec::new());
    let cb = DecapContext::new(Label::Broadcast, 0x2222, b, 20, 0, false, Vec::new());
    match m.new_frag(ca) {
        Ok(x) => assert!(m.save_frag(x).is_ok(), "C17.save_into_empty_slot_accepted"),
        Err(_) => panic!("C17.new_frag_takes_a_free_buffer"),
    }
    match m.new_frag(cb) {
        Ok(x) => assert!(m.save_frag(x).is_ok(), "C17.save_into_empty_slot_accepted"),
        Err(_) => panic!("C17.new_frag_takes_a_free_buffer"),
    }
    match m.take_frag(a) {
        Ok((c, _)) => assert!(c.frag_id == a && c.protocol_type == 0x1111 && c.total_len == 10, "C17.take_returns_saved_context"),
        Err(_) => panic!("C17.saved_context_is_retrievable"),
    }
    match m.take_frag(b) {
        Ok((c, _)) => assert!(c.frag_id == b && c.protocol_type == 0x2222 && c.total_len == 20, "C17.take_returns_saved_context"),
        Err(_) => panic!("C17.saved_context_is_retrievable"),
    }
    assert!(matches!(m.take_frag(a), Err(DecapMemoryError::UndefinedId)), "C17.take_frag_unknown_id_is_undefined");
}

// the reference memory satisfies the same contract (so that decap harnesses may use it)
type R1 = RefMem<1>;
type R2 = RefMem<2>;
contract!(ref_provision_s1_some, 6, R1, op_provision::<R1>(&S1E2, false));
contract!(ref_provision_s1_full, 6, R1, op_provision::<R1>(&S1O3, false));
contract!(ref_provision_s1_small, 6, R1, op_provision::<R1>(&S1O1, true));
contract!(ref_new_pdu_s1_empty, 6, R1, op_new_pdu::<R1>(&S1O0));
contract!(ref_new_pdu_s1_some, 6, R1, op_new_pdu::<R1>(&S1E2));
contract!(ref_take_s1_occ, 6, R1, op_take::<R1>(&S1O1));
contract!(ref_take_s1_empty, 6, R1, op_take::<R1>(&S1E2));
contract!(ref_new_frag_s1_empty_nobuf, 6, R1, op_new_frag::<R1>(&S1E0));
contract!(ref_take_s2_both, 6, R2, op_take::<R2>(&S2B));
contract!(ref_new_frag_s1_empty, 6, R1, op_new_frag::<R1>(&S1E2));
contract!(ref_new_frag_s1_occ, 6, R1, op_new_frag::<R1>(&S1O1));
contract!(ref_new_frag_s2, 6, R2, op_new_frag::<R2>(&S2A));
contract!(ref_save_s1_occ, 6, R1, op_save::<R1>(&S1O0));
contract!(ref_save_s2, 6, R2, op_save::<R2>(&S2A));

#[cfg(feature = "twins")]
#[kani::proof]
#[kani::unwind(6)]
#[kani::stub(core::mem::swap, crate::dmodels::swap_stub)]
pub fn twin_take() {
    let (mut m, _g) = build::<Sm>(&S1O1);
    let id: u8 = kani::any();
    let r = m.take_frag(id);
    if r.is_err() {
        assert!(false, "TWIN.reachable");
    }
    core::mem::forget(r);
    core::mem::forget(m);
}

//! C12: the default CRC is CRC-32/MPEG-2 over total length | protocol type | label | PDU,
//! and that is the value sender and receiver use.
use crate::models::*;
use crate::spec::*;
use dvb_gse_rust::crc::{CrcCalculator, DefaultCrc};
use dvb_gse_rust::gse_encap::{ContextFrag, EncapMetadata, EncapStatus, Encapsulator};
use dvb_gse_rust::label::Label;

/// Reference over the four header bytes, in the order total length, protocol type, big endian.
pub fn ref_header(tl: u16, pt: u16) -> u32 {
    let r = crc_bit_step(CRC_INIT, (tl >> 8) as u8);
    let r = crc_bit_step(r, tl as u8);
    let r = crc_bit_step(r, (pt >> 8) as u8);
    crc_bit_step(r, pt as u8)
}

/// (b) init value, field order and endianness of the 4-byte prefix, all 2^32 (tl, pt) pairs.
#[kani::proof]
#[kani::unwind(12)]
pub fn header_prefix() {
    let tl: u16 = kani::any();
    let pt: u16 = kani::any();
    let got = DefaultCrc {}.calculate_crc32(&[], pt, tl, &[]);
    assert!(got == ref_header(tl, pt), "C12.prefix_init_order_endianness");
    kani::cover!(tl == 0xFFFF && pt == 0x0800, "reached");
}

/// (a) byte-step lemma over the public API: appending one PDU byte applies exactly one
/// MSB-first, polynomial 0x04C11DB7 step to the register.  The register after the four
/// prefix bytes ranges over all 2^32 values (4 arbitrary bytes into a 32-bit CRC is a
/// bijection), so this exercises every table index in every register state.
#[kani::proof]
#[kani::unwind(12)]
pub fn byte_step_pdu() {
    let tl: u16 = kani::any();
    let pt: u16 = kani::any();
    let b: u8 = kani::any();
    let base = DefaultCrc {}.calculate_crc32(&[], pt, tl, &[]);
    let got = DefaultCrc {}.calculate_crc32(&[b], pt, tl, &[]);
    assert!(got == crc_bit_step(base, b), "C12.byte_step_pdu");
    kani::cover!(b == 0xFF, "reached");
}

/// Same lemma for a label byte (label precedes the PDU).
#[kani::proof]
#[kani::unwind(12)]
pub fn byte_step_label() {
    let tl: u16 = kani::any();
    let pt: u16 = kani::any();
    let b: u8 = kani::any();
    let base = DefaultCrc {}.calculate_crc32(&[], pt, tl, &[]);
    let got = DefaultCrc {}.calculate_crc32(&[], pt, tl, &[b]);
    assert!(got == crc_bit_step(base, b), "C12.byte_step_label");
    kani::cover!(b == 0x80, "reached");
}

#[cfg(not(feature = "deep"))]
pub const NP12: usize = 8;
#[cfg(feature = "deep")]
pub const NP12: usize = 24;

pub fn ref_full(tl: u16, pt: u16, label: &[u8], lab_len: usize, pdu: &[u8], pdu_len: usize) -> u32 {
    let mut r = ref_header(tl, pt);
    let mut i = 0;
    while i < lab_len {
        r = crc_bit_step(r, label[i]);
        i += 1;
    }
    let mut j = 0;
    while j < pdu_len {
        r = crc_bit_step(r, pdu[j]);
        j += 1;
    }
    r
}

/// (c) differential against the bitwise reference: label length 0 / 3 / 6, PDU length
/// 0..=NP12, every byte symbolic: label before PDU, no reflection, no final xor.
#[kani::proof]
#[kani::unwind(26)]
pub fn differential() {
    let tl: u16 = kani::any();
    let pt: u16 = kani::any();
    let label: [u8; 6] = kani::any();
    let k: u8 = kani::any();
    kani::assume(k < 3);
    let lab_len = (k as usize) * 3;
    let pdu: [u8; NP12] = kani::any();
    let pdu_len = any_len(NP12);
    let got = DefaultCrc {}.calculate_crc32(&pdu[..pdu_len], pt, tl, &label[..lab_len]);
    let exp = ref_full(tl, pt, &label, lab_len, &pdu, pdu_len);
    assert!(got == exp, "C12.equals_crc32_mpeg2_reference");
    kani::cover!(lab_len == 6 && pdu_len == NP12, "max_size");
    kani::cover!(lab_len == 0 && pdu_len == 0, "min_size");
}

/// Known-answer anchor for the reference itself: CRC-32/MPEG-2("123456789") = 0x0376E6E7
/// (catalogue check value), computed through DefaultCrc by mapping the nine bytes onto
/// total length | protocol type | label(3) | pdu(2).
#[kani::proof]
#[kani::unwind(12)]
pub fn check_value() {
    let got = DefaultCrc {}.calculate_crc32(b"89", 0x3334, 0x3132, b"567");
    assert!(got == 0x0376_E6E7, "C12.catalogue_check_value");
    let r = ref_full(0x3132, 0x3334, b"567\0\0\0", 3, b"89", 2);
    assert!(r == 0x0376_E6E7, "C12.reference_matches_catalogue");
    kani::cover!(true, "reached");
}

/// (d) wiring, sender: a first fragment hands the calculator the WHOLE PDU, the protocol
/// type, total length 2 + label-as-written + PDU length and the label bytes as written
/// (none after a re-use substitution), exactly once, and stores the result in the context.
#[kani::proof]
#[kani::unwind(8)]
pub fn sender_wiring() {
    const NP: usize = 12;
    const NB: usize = 24;
    let pdu_arr: [u8; NP] = kani::any();
    let mut buf_arr: [u8; NB] = kani::any();
    let pdu_len = any_len(NP);
    let buf_len = any_len(NB);
    let label = any_label();
    let ptype: u16 = kani::any();
    let st = any_enc_state();
    let ret: u32 = kani::any();
    let pi = any_len(NP - 1);
    let li = any_len(5);
    let mut enc = Encapsulator::verif_from_parts(RecCrc::new(ret, pi, li), st.0, st.1, st.2, st.3);
    let md = EncapMetadata::new(ptype, label);
    let r = enc.encap(&pdu_arr[..pdu_len], kani::any(), md, &mut buf_arr[..buf_len]);
    let wl = crate::c06::written_label(&st, &label);
    let rec = enc.get_crc_calculator();
    match &r {
        Ok(EncapStatus::FragmentedPkt(_, ctx)) => {
            assert!(rec.calls.get() >= 1, "C12.sender_calls_calculator");
            assert!(rec.pdu_len.get() == pdu_len, "C12.sender_crc_over_whole_pdu");
            if pi < pdu_len {
                assert!(rec.pdu_at.get() == Some(pdu_arr[pi]), "C12.sender_crc_pdu_bytes");
                kani::cover!(pi > 0, "pdu_index_inside");
            }
            assert!(rec.pt.get() == ptype, "C12.sender_crc_protocol_type");
            assert!(rec.tl.get() as usize == 2 + wl.len() + pdu_len, "C12.sender_crc_total_length");
            assert!(rec.lab_len.get() == wl.len(), "C12.sender_crc_label_as_written");
            if li < wl.len() {
                assert!(rec.lab_at.get() == Some(label_byte(&wl, li)), "C12.sender_crc_label_bytes");
            }
            assert!(ctx.crc() == ret, "C12.sender_ctx_holds_calculator_result");
            kani::cover!(wl.len() == 0 && label.len() == 6, "reuse_substituted_empty_label");
            kani::cover!(wl.len() == 3, "label_3");
        }
        Ok(EncapStatus::CompletedPkt(_)) => {}
        Err(_) => {}
    }
    core::mem::forget(enc);
}

#[cfg(feature = "twins")]
#[kani::proof]
#[kani::unwind(12)]
pub fn twin_byte_step() {
    let tl: u16 = kani::any();
    let pt: u16 = kani::any();
    let b: u8 = kani::any();
    let got = DefaultCrc {}.calculate_crc32(&[b], pt, tl, &[]);
    if got == 0 {
        assert!(false, "TWIN.reachable");
    }
}

/// (d') wiring through encap_ext: same obligations as `sender_wiring` when the PDU carries
/// header extensions (the calculator still sees the label AS WRITTEN, the whole PDU, the
/// protocol type passed by the caller and total length 2 + written label + PDU).
#[kani::proof]
#[kani::unwind(10)]
pub fn sender_wiring_ext() {
    const NP: usize = 8;
    const NB: usize = 32;
    let pdu_arr: [u8; NP] = kani::any();
    let mut buf_arr: [u8; NB] = kani::any();
    let pdu_len = any_len(NP);
    let buf_len = any_len(NB);
    let label = any_label();
    let ptype: u16 = kani::any();
    let st = any_enc_state();
    let ret: u32 = kani::any();
    let pi = any_len(NP - 1);
    let li = any_len(5);
    let (e, _s) = crate::extm::mk_ext(crate::extm::Class::O(2));
    let mut enc = Encapsulator::verif_from_parts(RecCrc::new(ret, pi, li), st.0, st.1, st.2, st.3);
    let md = EncapMetadata::new(ptype, label);
    let r = enc.encap_ext(&pdu_arr[..pdu_len], kani::any(), md, &mut buf_arr[..buf_len], vec![e]);
    let wl = crate::c06::written_label(&st, &label);
    let rec = enc.get_crc_calculator();
    match &r {
        Ok(EncapStatus::FragmentedPkt(_, ctx)) => {
            assert!(rec.calls.get() >= 1, "C12.sender_calls_calculator");
            assert!(rec.pdu_len.get() == pdu_len, "C12.sender_crc_over_whole_pdu");
            if pi < pdu_len {
                assert!(rec.pdu_at.get() == Some(pdu_arr[pi]), "C12.sender_crc_pdu_bytes");
            }
            assert!(rec.pt.get() == ptype, "C12.sender_crc_protocol_type");
            assert!(rec.tl.get() as usize == 2 + wl.len() + pdu_len, "C12.sender_crc_total_length");
            assert!(rec.lab_len.get() == wl.len(), "C12.sender_crc_label_as_written");
            if li < wl.len() {
                assert!(rec.lab_at.get() == Some(label_byte(&wl, li)), "C12.sender_crc_label_bytes");
            }
            assert!(ctx.crc() == ret, "C12.sender_ctx_holds_calculator_result");
            kani::cover!(wl.len() == 0 && label.len() == 6, "reuse_substituted_empty_label");
            kani::cover!(wl.len() == 6, "label_6");
        }
        Ok(EncapStatus::CompletedPkt(_)) => {}
        Err(_) => {}
    }
    core::mem::forget(enc);
}

//! C11: fragmentation always progresses and partitions the PDU exactly.
use crate::models::*;
use crate::spec::*;
use dvb_gse_rust::gse_encap::{ContextFrag, EncapError, EncapMetadata, EncapStatus, Encapsulator};
use dvb_gse_rust::label::Label;

/// First fragment (lattice): the returned context counts exactly the payload bytes of the
/// packet (packet length minus fixed header, frag id, total length, protocol type, label),
/// is strictly inside the PDU, and nothing wraps.  PDU lengths 0..=65535.
#[kani::proof]
#[kani::unwind(8)]
pub fn first_fragment_lattice() {
    let pdu_len = any_len(65535);
    let buf_len = any_len(BIG);
    let pdu_v = zeros(pdu_len);
    let mut buf_v = zeros(buf_len);
    let label = any_label();
    let ptype: u16 = kani::any();
    let fid: u8 = kani::any();
    let mut enc = any_encapsulator();
    let before = enc.verif_parts();
    let md = EncapMetadata::new(ptype, label);
    let r = enc.encap(&pdu_v[..], fid, md, &mut buf_v[..]);
    if let Ok(EncapStatus::FragmentedPkt(n, ctx)) = r {
        let n = n as usize;
        let carried = ctx.len_pdu_frag() as usize;
        // label as written: length 0, 3 or 6
        assert!(n <= buf_len, "C11.first_len_le_buffer");
        assert!(n >= 7, "C11.first_len_ge_header");
        let written_label = n - 7 - carried.min(n - 7);
        assert!(n >= 7 + carried, "C11.first_ctx_le_packet");
        assert!(written_label == 0 || written_label == 3 || written_label == 6, "C11.first_ctx_counts_payload");
        assert!(written_label <= label.len(), "C11.first_label_written_le_passed");
        if !before.0 || label.len() == 0 {
            assert!(written_label == label.len(), "C11.first_ctx_counts_payload_exact");
        }
        assert!(carried < pdu_len, "C11.first_ctx_inside_pdu");
        assert!(carried <= pdu_len, "C11.first_ctx_le_pdu");
        assert!(ctx.frag_id() == fid, "C11.first_ctx_frag_id");
        assert!(n - 2 <= 4095, "C11.first_gse_len_12bit");
        kani::cover!(carried == 0, "first_empty_payload");
        kani::cover!(buf_len > 4097 && pdu_len > 4095, "first_big");
        kani::cover!(written_label == 0 && label.len() == 6, "first_reuse_substituted");
    }
    core::mem::forget(enc);
}

/// Continuation (lattice): from every (position, PDU length, buffer length, id, crc).
#[kani::proof]
pub fn continuation_lattice() {
    let pdu_len = any_len(65535);
    let buf_len = any_len(BIG);
    let pdu_v = zeros(pdu_len);
    let mut buf_v = zeros(buf_len);
    let ctx = any_ctx();
    let pos = ctx.len_pdu_frag() as usize;
    let enc = Encapsulator::new(ConstCrc(0));
    let r = enc.encap_frag(&pdu_v[..], &ctx, &mut buf_v[..]);
    if pos > pdu_len {
        assert!(r.is_err(), "C11.ctx_beyond_pdu_rejected");
        return;
    }
    let remaining = pdu_len - pos;
    match &r {
        Ok(EncapStatus::CompletedPkt(n)) => {
            let n = *n as usize;
            assert!(n == 7 + remaining, "C11.end_len");
            assert!(n <= buf_len, "C11.end_len_le_buffer");
            assert!(n - 2 <= 4095, "C11.end_gse_len_12bit");
            kani::cover!(remaining == 0, "end_only_crc");
            kani::cover!(remaining == 4090, "end_max");
        }
        Ok(EncapStatus::FragmentedPkt(n, c2)) => {
            let n = *n as usize;
            let p2 = c2.len_pdu_frag() as usize;
            assert!(p2 > pos, "C11.intermediate_advances");
            let adv = p2 - pos.min(p2);
            assert!(adv >= 1, "C11.intermediate_at_least_one_byte");
            assert!(n == 3 + adv, "C11.intermediate_len");
            assert!(n <= buf_len, "C11.intermediate_len_le_buffer");
            assert!(n - 2 <= 4095, "C11.intermediate_gse_len_12bit");
            assert!(p2 <= pdu_len, "C11.intermediate_ctx_le_pdu");
            assert!(c2.frag_id() == ctx.frag_id(), "C11.intermediate_frag_id_unchanged");
            assert!(c2.crc() == ctx.crc(), "C11.intermediate_crc_unchanged");
            kani::cover!(p2 == pdu_len, "intermediate_reaches_end_without_crc");
            kani::cover!(buf_len > 4097, "intermediate_big_buffer");
        }
        Err(e) => {
            let _ = e;
            // a buffer of >= 7 bytes can always carry something useful:
            // either >= 1 payload byte (4 bytes suffice) or the CRC-only end packet (7 bytes)
            assert!(buf_len < 7, "C11.progress_with_7_bytes");
            assert!(buf_len < 4 || remaining == 0, "C11.progress_with_4_bytes_when_payload_remains");
            kani::cover!(remaining == 0 && buf_len >= 4, "reject_instead_of_empty_fragment");
            kani::cover!(buf_len < 4, "reject_tiny");
        }
    }
    // (the measure: remaining strictly decreases or the call completes -> bound remaining + 1)
    if buf_len >= 7 && remaining == 0 {
        assert!(matches!(r, Ok(EncapStatus::CompletedPkt(_))), "C11.only_crc_left_completes");
    }
}

#[cfg(feature = "twins")]
#[kani::proof]
pub fn twin_continuation() {
    let pdu_len = any_len(65535);
    let buf_len = any_len(BIG);
    let pdu_v = zeros(pdu_len);
    let mut buf_v = zeros(buf_len);
    let ctx = any_ctx();
    let enc = Encapsulator::new(ConstCrc(0));
    let r = enc.encap_frag(&pdu_v[..], &ctx, &mut buf_v[..]);
    if let Ok(EncapStatus::FragmentedPkt(_, _)) = r {
        assert!(false, "TWIN.reachable");
    }
}


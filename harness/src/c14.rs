//! C14: the 16-bit fixed header codec is a bijection on non-padding headers.
//! Full domain (no bound): all 65536 words, all 4 x 4 x 4096 triples.
use crate::models::*;
use crate::spec::*;
use dvb_gse_rust::gse_decap::read_gse_header;
use dvb_gse_rust::gse_encap::generate_gse_header;

/// Every header word: no panic, None iff padding, equals the spec decoding,
/// and re-encoding the decoded triple reproduces the word.
#[kani::proof]
pub fn read_all_words() {
    let w: u16 = kani::any();
    let got = read_gse_header(w);
    let exp = spec_header(w);
    let padding = (w & 0xF000) == 0;
    assert!(got.is_none() == padding, "C14.none_iff_padding");
    match (got, exp) {
        (None, None) => {
            kani::cover!(true, "padding");
        }
        (Some((len, pk, lt)), Some((elen, ek, elt))) => {
            assert!(len == elen, "C14.read_len");
            assert!(kind_of(&pk) == ek, "C14.read_kind");
            assert!(lt_of(&lt) == elt, "C14.read_label_type");
            assert!(len <= 4095, "C14.read_len_12bit");
            let back = generate_gse_header(&pk, &lt, len as u16);
            assert!(back == w, "C14.reencode_identity");
            kani::cover!(ek == Kind::Complete, "complete");
            kani::cover!(ek == Kind::First, "first");
            kani::cover!(ek == Kind::Intermediate, "intermediate");
            kani::cover!(ek == Kind::End, "end");
        }
        _ => {
            assert!(false, "C14.read_matches_spec");
        }
    }
}

/// Every (kind, label type, length <= 4095) triple other than the padding pattern:
/// encode equals the spec encoding and decodes back to the same triple.
#[kani::proof]
pub fn generate_all_triples() {
    let k = any_kind();
    let lt = any_lt();
    let len: u16 = kani::any();
    kani::assume(len <= 4095);
    let is_padding_pattern = k == Kind::Intermediate && lt == LT::Six;
    let w = generate_gse_header(&pkt_of(k), &labeltype_of(lt), len);
    assert!(w == spec_encode(k, lt, len), "C14.encode_matches_spec");
    let back = read_gse_header(w);
    if is_padding_pattern {
        assert!(back.is_none(), "C14.padding_pattern_reads_none");
        kani::cover!(true, "padding_pattern");
    } else {
        match back {
            None => assert!(false, "C14.decode_some"),
            Some((l2, k2, lt2)) => {
                assert!(l2 == len as usize, "C14.decode_len");
                assert!(kind_of(&k2) == k, "C14.decode_kind");
                assert!(lt_of(&lt2) == lt, "C14.decode_label_type");
                kani::cover!(len == 4095, "max_len");
                kani::cover!(len == 0, "zero_len");
            }
        }
    }
}

/// Lengths above 4095 passed to the encoder are masked to 12 bits and never touch
/// the kind / label-type bits (callers are expected to have clamped; this pins the mask).
#[kani::proof]
pub fn generate_masks_length() {
    let k = any_kind();
    let lt = any_lt();
    let len: u16 = kani::any();
    let w = generate_gse_header(&pkt_of(k), &labeltype_of(lt), len);
    assert!(w & 0xF000 == spec_encode(k, lt, 0) & 0xF000, "C14.high_bits_independent_of_len");
    assert!(w & 0x0FFF == len & 0x0FFF, "C14.len_masked");
    kani::cover!(len > 4095, "over_len");
}

#[cfg(feature = "twins")]
#[kani::proof]
pub fn twin_read_all_words() {
    let w: u16 = kani::any();
    let got = read_gse_header(w);
    if got.is_some() {
        assert!(false, "TWIN.reachable");
    }
}

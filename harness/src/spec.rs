//! Independent reading of ETSI TS 102 606-1 (GSE), written from the standard's
//! field table, not from the crate's code.  Everything here is loop-free (except the
//! explicit bit loops of the CRC reference) and allocation-free so that it adds
//! almost nothing to the solver's formula.
//!
//! GSE packet:
//!   S(1) E(1) LT(2) GSE_Length(12)
//!   [Frag_ID(8)]        unless S=1,E=1
//!   [Total_Length(16)]  iff S=1,E=0
//!   [Protocol_Type(16)] iff S=1
//!   [Label 6|3|0|0]     iff S=1, by LT 00|01|10|11
//!   [extension headers] iff Protocol_Type < 0x600
//!   data
//!   [CRC32]             iff S=0,E=1
//! S=0,E=0,LT=00 is padding.  GSE_Length counts the bytes after the 2-byte fixed header.

use dvb_gse_rust::label::{Label, LabelType};
use dvb_gse_rust::verif_hooks::PktType;

#[derive(Copy, Clone, PartialEq, Eq, Debug)]
pub enum Kind {
    Complete,
    First,
    Intermediate,
    End,
}

#[derive(Copy, Clone, PartialEq, Eq, Debug)]
pub enum LT {
    Six,
    Three,
    Broadcast,
    ReUse,
}

impl LT {
    pub const fn len(self) -> usize {
        match self {
            LT::Six => 6,
            LT::Three => 3,
            LT::Broadcast => 0,
            LT::ReUse => 0,
        }
    }
    pub const fn bits(self) -> u16 {
        match self {
            LT::Six => 0,
            LT::Three => 1,
            LT::Broadcast => 2,
            LT::ReUse => 3,
        }
    }
}

impl Kind {
    /// (S, E)
    pub const fn se(self) -> (u16, u16) {
        match self {
            Kind::Complete => (1, 1),
            Kind::First => (1, 0),
            Kind::Intermediate => (0, 0),
            Kind::End => (0, 1),
        }
    }
}

/// Decode the 16-bit fixed header.  `None` = padding.
pub fn spec_header(w: u16) -> Option<(usize, Kind, LT)> {
    let s = (w >> 15) & 1;
    let e = (w >> 14) & 1;
    let lt = (w >> 12) & 3;
    let len = (w & 0x0FFF) as usize;
    if s == 0 && e == 0 && lt == 0 {
        return None;
    }
    let kind = if s == 1 && e == 1 {
        Kind::Complete
    } else if s == 1 {
        Kind::First
    } else if e == 1 {
        Kind::End
    } else {
        Kind::Intermediate
    };
    let lt = if lt == 0 {
        LT::Six
    } else if lt == 1 {
        LT::Three
    } else if lt == 2 {
        LT::Broadcast
    } else {
        LT::ReUse
    };
    Some((len, kind, lt))
}

/// Encode the 16-bit fixed header (len must be <= 4095).
pub fn spec_encode(kind: Kind, lt: LT, len: u16) -> u16 {
    let (s, e) = kind.se();
    (s << 15) | (e << 14) | (lt.bits() << 12) | (len & 0x0FFF)
}

pub fn kind_of(p: &PktType) -> Kind {
    match p {
        PktType::CompletePkt => Kind::Complete,
        PktType::FirstFragPkt => Kind::First,
        PktType::IntermediateFragPkt => Kind::Intermediate,
        PktType::EndFragPkt => Kind::End,
    }
}

pub fn pkt_of(k: Kind) -> PktType {
    match k {
        Kind::Complete => PktType::CompletePkt,
        Kind::First => PktType::FirstFragPkt,
        Kind::Intermediate => PktType::IntermediateFragPkt,
        Kind::End => PktType::EndFragPkt,
    }
}

pub fn lt_of(l: &LabelType) -> LT {
    match l {
        LabelType::SixBytesLabel => LT::Six,
        LabelType::ThreeBytesLabel => LT::Three,
        LabelType::Broadcast => LT::Broadcast,
        LabelType::ReUse => LT::ReUse,
    }
}

pub fn labeltype_of(l: LT) -> LabelType {
    match l {
        LT::Six => LabelType::SixBytesLabel,
        LT::Three => LabelType::ThreeBytesLabel,
        LT::Broadcast => LabelType::Broadcast,
        LT::ReUse => LabelType::ReUse,
    }
}

pub fn lt_of_label(l: &Label) -> LT {
    match l {
        Label::SixBytesLabel(_) => LT::Six,
        Label::ThreeBytesLabel(_) => LT::Three,
        Label::Broadcast => LT::Broadcast,
        Label::ReUse => LT::ReUse,
    }
}

/// Byte `i` of a label as written on the wire (caller guarantees i < len).
pub fn label_byte(l: &Label, i: usize) -> u8 {
    match l {
        Label::SixBytesLabel(b) => b[i],
        Label::ThreeBytesLabel(b) => b[i],
        _ => 0,
    }
}

/// Field layout of a GSE packet located at the start of `buf`, per the table above.
/// Offsets are relative to the start of the packet.  No extension parsing here:
/// `ptype_field` is the raw 16-bit Protocol_Type field (which is the first
/// extension id when < 0x600) and `data_off` is the first byte after the label.
#[derive(Copy, Clone, Debug)]
pub struct Layout {
    pub kind: Kind,
    pub lt: LT,
    pub gse_len: usize,
    /// total on-wire length = gse_len + 2
    pub pkt_len: usize,
    pub frag_id_off: Option<usize>,
    pub total_len_off: Option<usize>,
    pub ptype_off: Option<usize>,
    pub label_off: usize,
    pub label_len: usize,
    /// first byte after the label (extension headers or data)
    pub data_off: usize,
    /// one past the last data byte (= crc_off for End, pkt_len otherwise)
    pub data_end: usize,
    pub crc_off: Option<usize>,
}

/// Layout for a header word; `None` for padding or when the announced GSE length is
/// too short to contain the mandatory fields of its kind.
pub fn layout(w: u16) -> Option<Layout> {
    let (gse_len, kind, lt) = match spec_header(w) {
        Some(t) => t,
        None => return None,
    };
    let pkt_len = gse_len + 2;
    let mut off = 2usize;
    let mut frag_id_off = None;
    let mut total_len_off = None;
    let mut ptype_off = None;
    let mut label_len = 0usize;
    let (s, e) = kind.se();
    if !(s == 1 && e == 1) {
        frag_id_off = Some(off);
        off += 1;
    }
    if s == 1 && e == 0 {
        total_len_off = Some(off);
        off += 2;
    }
    if s == 1 {
        ptype_off = Some(off);
        off += 2;
        label_len = lt.len();
    }
    let label_off = off;
    off += label_len;
    let data_off = off;
    let mut data_end = pkt_len;
    let mut crc_off = None;
    if s == 0 && e == 1 {
        if pkt_len < data_off + 4 {
            return None;
        }
        data_end = pkt_len - 4;
        crc_off = Some(data_end);
    }
    if pkt_len < data_off {
        return None;
    }
    Some(Layout {
        kind,
        lt,
        gse_len,
        pkt_len,
        frag_id_off,
        total_len_off,
        ptype_off,
        label_off,
        label_len,
        data_off,
        data_end,
        crc_off,
    })
}

pub fn be16(buf: &[u8], off: usize) -> u16 {
    ((buf[off] as u16) << 8) | (buf[off + 1] as u16)
}

pub fn be32(buf: &[u8], off: usize) -> u32 {
    ((buf[off] as u32) << 24)
        | ((buf[off + 1] as u32) << 16)
        | ((buf[off + 2] as u32) << 8)
        | (buf[off + 3] as u32)
}

/// Optional-extension data length by H-LEN (bits 10..8 of the extension type),
/// RFC 5163 / TS 102 606-1 §4.2.3: H-LEN 1..5 -> 0,2,4,6,8 data bytes.
pub const fn hlen_data(id: u16) -> Option<usize> {
    match (id >> 8) & 7 {
        1 => Some(0),
        2 => Some(2),
        3 => Some(4),
        4 => Some(6),
        5 => Some(8),
        _ => None,
    }
}

// ---------------------------------------------------------------------------------
// CRC-32/MPEG-2 bitwise reference: poly 0x04C11DB7, init 0xFFFFFFFF, MSB first,
// no reflection, no final xor.
// ---------------------------------------------------------------------------------

pub const CRC_POLY: u32 = 0x04C1_1DB7;
pub const CRC_INIT: u32 = 0xFFFF_FFFF;

/// One byte of the bitwise CRC, written without a loop (eight explicit steps) so that
/// harnesses need no unwinding for it.
#[inline(always)]
pub fn crc_bit_step(reg: u32, b: u8) -> u32 {
    #[inline(always)]
    fn s(r: u32) -> u32 {
        if r & 0x8000_0000 != 0 {
            (r << 1) ^ CRC_POLY
        } else {
            r << 1
        }
    }
    let r = reg ^ ((b as u32) << 24);
    s(s(s(s(s(s(s(s(r))))))))
}

//! Receiver-side models: per-kind header-reader stubs (DESIGN 3.2), mem::swap stub (3.3),
//! reference memory RefMem (3.4) and concrete-shape builders for SimpleGseMemory (3.5).
use crate::extm::*;
use crate::models::*;
use crate::spec::*;
use dvb_gse_rust::crc::CrcCalculator;
use dvb_gse_rust::gse_decap::{
    DecapContext, DecapError, DecapMemoryError, DecapMetadata, DecapStatus, Decapsulator, GseDecapMemory,
    SimpleGseMemory,
};
use dvb_gse_rust::header_extension::{Extension, MandatoryHeaderExtensionManager};
use dvb_gse_rust::label::{Label, LabelType};
use dvb_gse_rust::verif_hooks::PktType;

// ------------------------------------------------------------------------------------
// 3.2 header-reader stubs: the harness's own decoding (spec.rs), restricted to one packet
// kind by an assumption and returning that kind as a CONSTANT so that CBMC prunes the
// other decap_* bodies.  Straight-line on purpose.  Sound because C14 proves
// read_gse_header == spec_header on all 65536 words (run as a prerequisite).
// ------------------------------------------------------------------------------------

#[inline(always)]
fn lt_bits(w: u16) -> LabelType {
    match (w >> 12) & 3 {
        0 => LabelType::SixBytesLabel,
        1 => LabelType::ThreeBytesLabel,
        2 => LabelType::Broadcast,
        _ => LabelType::ReUse,
    }
}

pub fn hdr_complete(w: u16) -> Option<(usize, PktType, LabelType)> {
    kani::assume(w & 0xC000 == 0xC000);
    Some(((w & 0x0FFF) as usize, PktType::CompletePkt, lt_bits(w)))
}

pub fn hdr_first(w: u16) -> Option<(usize, PktType, LabelType)> {
    kani::assume(w & 0xC000 == 0x8000);
    Some(((w & 0x0FFF) as usize, PktType::FirstFragPkt, lt_bits(w)))
}

pub fn hdr_end(w: u16) -> Option<(usize, PktType, LabelType)> {
    kani::assume(w & 0xC000 == 0x4000);
    Some(((w & 0x0FFF) as usize, PktType::EndFragPkt, lt_bits(w)))
}

pub fn hdr_intermediate(w: u16) -> Option<(usize, PktType, LabelType)> {
    kani::assume(w & 0xC000 == 0x0000 && w & 0x3000 != 0);
    Some(((w & 0x0FFF) as usize, PktType::IntermediateFragPkt, lt_bits(w)))
}

/// Per-kind AND per-label-type stubs (label type returned as a constant too, so that the
/// field offsets inside the packet are concrete): used where the extension walker runs.
macro_rules! hdr_kind_lt {
    ($name:ident, $kbits:expr, $kind:expr, $ltbits:expr, $lt:expr) => {
        pub fn $name(w: u16) -> Option<(usize, PktType, LabelType)> {
            kani::assume(w & 0xC000 == $kbits && w & 0x3000 == $ltbits);
            Some(((w & 0x0FFF) as usize, $kind, $lt))
        }
    };
}
hdr_kind_lt!(hdr_complete_6b, 0xC000, PktType::CompletePkt, 0x0000, LabelType::SixBytesLabel);
hdr_kind_lt!(hdr_complete_3b, 0xC000, PktType::CompletePkt, 0x1000, LabelType::ThreeBytesLabel);
hdr_kind_lt!(hdr_complete_bc, 0xC000, PktType::CompletePkt, 0x2000, LabelType::Broadcast);
hdr_kind_lt!(hdr_complete_ru, 0xC000, PktType::CompletePkt, 0x3000, LabelType::ReUse);
hdr_kind_lt!(hdr_first_6b, 0x8000, PktType::FirstFragPkt, 0x0000, LabelType::SixBytesLabel);
hdr_kind_lt!(hdr_first_3b, 0x8000, PktType::FirstFragPkt, 0x1000, LabelType::ThreeBytesLabel);
hdr_kind_lt!(hdr_first_bc, 0x8000, PktType::FirstFragPkt, 0x2000, LabelType::Broadcast);
hdr_kind_lt!(hdr_first_ru, 0x8000, PktType::FirstFragPkt, 0x3000, LabelType::ReUse);

pub fn hdr_padding(w: u16) -> Option<(usize, PktType, LabelType)> {
    kani::assume(w & 0xF000 == 0);
    None
}

/// Stub for the (private) extension walker in harness instances that assume the type field
/// is >= 0x600: the walker is then unreachable, and the stub *checks* that claim instead of
/// trusting it (a reachable call fails MODEL.walker_unreachable).
pub fn walker_unreachable<M: MandatoryHeaderExtensionManager>(
    _pdu: &[u8],
    _m: &M,
    _first: u16,
) -> Result<dvb_gse_rust::gse_decap::IterateOverExtensionHeaderStatus, dvb_gse_rust::gse_decap::ExtensionHeaderError> {
    assert!(false, "MODEL.walker_unreachable");
    kani::assume(false);
    Err(dvb_gse_rust::gse_decap::ExtensionHeaderError::BufferTooSmall)
}

// 3.3 loop-free mem::swap (std's implementation swaps in 8-byte chunks in a loop)
pub fn swap_stub<T>(a: &mut T, b: &mut T) {
    // typed loads / stores only (a memcpy-style copy would make CBMC go through bytes)
    unsafe {
        let t = core::ptr::read(a);
        let u = core::ptr::read(b);
        core::ptr::write(a, u);
        core::ptr::write(b, t);
    }
}

// ------------------------------------------------------------------------------------
// Symbolic receiver-side values
// ------------------------------------------------------------------------------------

/// A label as a reassembly context can hold it (already resolved): 3-byte, non-zero
/// 6-byte or broadcast.
pub fn any_ctx_label() -> Label {
    let k: u8 = kani::any();
    kani::assume(k < 3);
    match k {
        0 => {
            let l = Label::SixBytesLabel(kani::any());
            kani::assume(!is_zero6(&l));
            l
        }
        1 => Label::ThreeBytesLabel(kani::any()),
        _ => Label::Broadcast,
    }
}

pub fn any_storage<const Z: usize>() -> Box<[u8]> {
    let a: [u8; Z] = kani::any();
    Box::new(a)
}

/// Arbitrary saved context for `slot` of a memory with `s` slots and storage of `z` bytes:
/// frag_id % s == slot, bytes received <= z.  `ext` = number of extensions carried (0 or 1).
pub fn any_context(s: usize, slot: usize, z: usize, ext: usize) -> DecapContext {
    let frag_id: u8 = kani::any();
    kani::assume(frag_id as usize % s == slot);
    let pdu_len: u16 = kani::any();
    kani::assume(pdu_len as usize <= z);
    let exts = if ext == 0 {
        Vec::new()
    } else {
        let (e, _s) = mk_ext(Class::O(2));
        vec![e]
    };
    DecapContext::new(any_ctx_label(), kani::any(), frag_id, kani::any(), pdu_len, kani::any(), exts)
}

/// Concrete heap shape of a SimpleGseMemory, everything inside symbolic.
#[derive(Copy, Clone)]
pub struct Shape {
    /// slots
    pub s: usize,
    /// which slots hold a context
    pub occ: [bool; 3],
    /// free buffers
    pub free: usize,
    /// saved contexts carry one extension
    pub ext: usize,
}

pub fn build_simple<const Z: usize>(sh: &Shape) -> SimpleGseMemory {
    let mut m = SimpleGseMemory::new(sh.s, Z, 0, 0);
    let mut k = 0;
    while k < sh.s {
        if sh.occ[k] {
            let ctx = any_context(sh.s, k, Z, sh.ext);
            let r = m.save_frag((ctx, any_storage::<Z>()));
            assert!(r.is_ok(), "MODEL.shape_save_frag");
        }
        k += 1;
    }
    let mut f = 0;
    while f < sh.free {
        let r = m.provision_storage(any_storage::<Z>());
        assert!(r.is_ok(), "MODEL.shape_provision");
        f += 1;
    }
    m
}

/// Remembered label of a receiver: None or 3-byte / non-zero 6-byte (invariant 3.7).
pub fn any_rx_label() -> Option<Label> {
    any_label_memory()
}

// ------------------------------------------------------------------------------------
// 3.4 RefMem<S>: executable statement of the GseDecapMemory contract — a bag of free
// buffers plus at most one saved context per slot, no Vec, no swap.
// ------------------------------------------------------------------------------------

pub const REF_FREE: usize = 4;

/// Case split on the outcome of `take_frag` for an occupied slot.  A harness instance runs
/// with one concrete mode; `Match` and `Mismatch` instances together cover `Any`.  The
/// excluded case is cut with a literal assume(false), so symbolic execution never merges
/// "slot emptied" with "slot kept" (that merge costs ~5M SAT variables, measured).
#[derive(Copy, Clone, PartialEq, Eq)]
pub enum TakeMode {
    Any,
    Match,
    Mismatch,
}

pub struct RefMem<const S: usize> {
    pub free: [Option<Box<[u8]>>; REF_FREE],
    pub cap: usize,
    pub min_size: usize,
    pub slots: [Option<(DecapContext, Box<[u8]>)>; S],
    pub mode: TakeMode,
    /// Case split on the slot a fragment id maps to: `Some(k)` cuts every id with
    /// id % S != k (literal assume(false)) and makes the index concrete.  Instances with
    /// k = 0..S-1 together cover every id.
    pub slot_hint: Option<usize>,
}

impl<const S: usize> RefMem<S> {
    pub fn idx_of(&self, frag_id: u8) -> usize {
        let idx = frag_id as usize % S;
        match self.slot_hint {
            Some(k) => {
                if idx != k {
                    kani::assume(false);
                }
                k
            }
            None => idx,
        }
    }

    pub fn free_count(&self) -> usize {
        let mut n = 0;
        let mut i = 0;
        while i < REF_FREE {
            if self.free[i].is_some() {
                n += 1;
            }
            i += 1;
        }
        n
    }
}

impl<const S: usize> GseDecapMemory for RefMem<S> {
    fn new(max_frag_id: usize, max_pdu_size: usize, _d: usize, _f: usize) -> Self {
        assert!(max_frag_id == S);
        RefMem {
            free: [None, None, None, None],
            cap: if S + 2 < REF_FREE { S + 2 } else { REF_FREE },
            min_size: max_pdu_size,
            slots: core::array::from_fn(|_| None),
            mode: TakeMode::Any,
            slot_hint: None,
        }
    }

    fn provision_storage(&mut self, storage: Box<[u8]>) -> Result<(), DecapMemoryError> {
        if self.free_count() >= self.cap {
            return Err(DecapMemoryError::StorageOverflow(storage));
        }
        if storage.len() < self.min_size {
            return Err(DecapMemoryError::BufferTooSmall(storage));
        }
        if self.free[0].is_none() {
            self.free[0] = Some(storage);
        } else if self.free[1].is_none() {
            self.free[1] = Some(storage);
        } else if self.free[2].is_none() {
            self.free[2] = Some(storage);
        } else {
            self.free[3] = Some(storage);
        }
        Ok(())
    }

    fn new_pdu(&mut self) -> Result<Box<[u8]>, DecapMemoryError> {
        if self.free[3].is_some() {
            return Ok(self.free[3].take().unwrap());
        }
        if self.free[2].is_some() {
            return Ok(self.free[2].take().unwrap());
        }
        if self.free[1].is_some() {
            return Ok(self.free[1].take().unwrap());
        }
        if self.free[0].is_some() {
            return Ok(self.free[0].take().unwrap());
        }
        Err(DecapMemoryError::StorageUnderflow)
    }

    fn new_frag(&mut self, context: DecapContext) -> Result<(DecapContext, Box<[u8]>), DecapMemoryError> {
        let idx = self.idx_of(context.frag_id);
        match self.slots[idx].take() {
            Some((_, pdu)) => Ok((context, pdu)),
            None => match self.new_pdu() {
                Ok(pdu) => Ok((context, pdu)),
                Err(e) => Err(e),
            },
        }
    }

    fn take_frag(&mut self, frag_id: u8) -> Result<(DecapContext, Box<[u8]>), DecapMemoryError> {
        let idx = self.idx_of(frag_id);
        match self.slots[idx].take() {
            None => Err(DecapMemoryError::UndefinedId),
            Some((c, p)) => {
                if c.frag_id == frag_id {
                    if self.mode == TakeMode::Mismatch {
                        kani::assume(false);
                    }
                    Ok((c, p))
                } else {
                    if self.mode == TakeMode::Match {
                        kani::assume(false);
                    }
                    // put back without running drop glue on the (empty) slot
                    unsafe { core::ptr::write(&mut self.slots[idx], Some((c, p))) };
                    Err(DecapMemoryError::UndefinedId)
                }
            }
        }
    }

    fn save_frag(&mut self, context: (DecapContext, Box<[u8]>)) -> Result<(), DecapMemoryError> {
        let idx = self.idx_of(context.0.frag_id);
        if self.slots[idx].is_some() {
            // the trait consumes the context; leak it rather than run its drop glue (never
            // reached from decap, which only saves into a slot it has just emptied)
            core::mem::forget(context);
            return Err(DecapMemoryError::MemoryCorrupted);
        }
        // the slot is None: overwrite it without running drop glue on a value the solver
        // only knows symbolically (an assignment would unroll Vec<Extension> drop loops)
        unsafe { core::ptr::write(&mut self.slots[idx], Some(context)) };
        Ok(())
    }
}

pub fn build_ref<const S: usize, const Z: usize>(sh: &Shape) -> RefMem<S> {
    let mut m = <RefMem<S> as GseDecapMemory>::new(S, Z, 0, 0);
    let mut k = 0;
    while k < S {
        if sh.occ[k] {
            let ctx = any_context(S, k, Z, sh.ext);
            m.slots[k] = Some((ctx, any_storage::<Z>()));
        }
        k += 1;
    }
    if sh.free > 0 {
        m.free[0] = Some(any_storage::<Z>());
    }
    if sh.free > 1 {
        m.free[1] = Some(any_storage::<Z>());
    }
    if sh.free > 2 {
        m.free[2] = Some(any_storage::<Z>());
    }
    if sh.free > 3 {
        m.free[3] = Some(any_storage::<Z>());
    }
    m
}

// ------------------------------------------------------------------------------------
// Ghost view of a memory state: what the harness knows it put where (pointer identity,
// contents, context fields).  Used by the memory contract lemmas (C17) and by the
// receiver lemmas (rx.rs).
// ------------------------------------------------------------------------------------

#[derive(Copy, Clone)]
pub struct BufG {
    pub ptr: *const u8,
    pub len: usize,
    pub bytes: [u8; 8],
}

pub const NOBUF: BufG = BufG { ptr: core::ptr::null(), len: 0, bytes: [0; 8] };

#[derive(Copy, Clone)]
pub struct CtxG {
    pub label: Label,
    pub ptype: u16,
    pub frag_id: u8,
    pub total_len: u16,
    pub pdu_len: u16,
    pub reuse: bool,
    pub n_ext: usize,
}

pub struct Ghost {
    pub slot: [Option<(CtxG, BufG)>; 3],
    pub free: [BufG; 4],
    pub nfree: usize,
}

pub fn mk_buf(n: usize) -> (Box<[u8]>, BufG) {
    // n is concrete at every call site
    let bytes: [u8; 8] = kani::any();
    let b: Box<[u8]> = if n == 3 {
        Box::new([bytes[0], bytes[1], bytes[2]])
    } else if n == 4 {
        Box::new([bytes[0], bytes[1], bytes[2], bytes[3]])
    } else {
        Box::new([bytes[0], bytes[1], bytes[2], bytes[3], bytes[4], bytes[5]])
    };
    let g = BufG { ptr: b.as_ptr(), len: b.len(), bytes };
    (b, g)
}

pub fn ctx_ghost(c: &DecapContext) -> CtxG {
    CtxG {
        label: c.label,
        ptype: c.protocol_type,
        frag_id: c.frag_id,
        total_len: c.total_len,
        pdu_len: c.pdu_len,
        reuse: c.from_label_reuse,
        n_ext: c.extensions_header.len(),
    }
}

pub fn ctx_matches(c: &DecapContext, g: &CtxG) -> bool {
    label_eq(&c.label, &g.label)
        && c.protocol_type == g.ptype
        && c.frag_id == g.frag_id
        && c.total_len == g.total_len
        && c.pdu_len == g.pdu_len
        && c.from_label_reuse == g.reuse
        && c.extensions_header.len() == g.n_ext
}

pub fn buf_matches(b: &[u8], g: &BufG) -> bool {
    let j = any_len(7);
    b.as_ptr() == g.ptr && b.len() == g.len && (j >= g.len || b[j] == g.bytes[j])
}


/// RefMem in shape `sh` with storage size Z (= configured size), plus its ghost view.
pub fn build_ref_ghost<const S: usize, const Z: usize>(sh: &Shape) -> (RefMem<S>, Ghost) {
    let mut m = <RefMem<S> as GseDecapMemory>::new(S, Z, 0, 0);
    let mut g = Ghost { slot: [None, None, None], free: [NOBUF; 4], nfree: 0 };
    let mut k = 0;
    while k < S {
        if sh.occ[k] {
            let ctx = any_context(S, k, Z, sh.ext);
            let (b, bg) = mk_buf(Z);
            g.slot[k] = Some((ctx_ghost(&ctx), bg));
            m.slots[k] = Some((ctx, b));
        }
        k += 1;
    }
    let mut f = 0;
    while f < sh.free {
        let (b, bg) = mk_buf(Z);
        g.free[f] = bg;
        m.free[f] = Some(b);
        f += 1;
    }
    g.nfree = sh.free;
    (m, g)
}

/// How many places of the memory hold the buffer with this address.
pub fn count_ptr<const S: usize>(m: &RefMem<S>, p: *const u8) -> usize {
    let mut n = 0;
    let mut k = 0;
    while k < S {
        if let Some((_, b)) = &m.slots[k] {
            if b.as_ptr() == p {
                n += 1;
            }
        }
        k += 1;
    }
    let mut f = 0;
    while f < REF_FREE {
        if let Some(b) = &m.free[f] {
            if b.as_ptr() == p {
                n += 1;
            }
        }
        f += 1;
    }
    n
}

/// Number of buffers held by the memory (free + attached to a reassembly).
pub fn count_bufs<const S: usize>(m: &RefMem<S>) -> usize {
    let mut n = m.free_count();
    let mut k = 0;
    while k < S {
        if m.slots[k].is_some() {
            n += 1;
        }
        k += 1;
    }
    n
}

/// A slot still holds exactly what the ghost says (context fields, same buffer, same bytes).
pub fn slot_unchanged<const S: usize>(m: &RefMem<S>, g: &Ghost, k: usize) -> bool {
    match (&m.slots[k], &g.slot[k]) {
        (None, None) => true,
        (Some((c, b)), Some((cg, bg))) => ctx_matches(c, cg) && buf_matches(b, bg),
        _ => false,
    }
}

/// Complete-or-padding header stub for frame-walk harnesses (two calls, two kinds).
pub fn hdr_complete_or_padding(w: u16) -> Option<(usize, PktType, LabelType)> {
    if w & 0xF000 == 0 {
        return None;
    }
    kani::assume(w & 0xC000 == 0xC000);
    Some(((w & 0x0FFF) as usize, PktType::CompletePkt, lt_bits(w)))
}

/// First-or-end header stub for the bounded end-to-end member of C02 (two decap calls):
/// first fragments with a 3-byte label, end fragments with label type 11.
pub fn hdr_first3b_or_end(w: u16) -> Option<(usize, PktType, LabelType)> {
    if w & 0x8000 != 0 {
        kani::assume(w & 0xF000 == 0x9000);
        return Some(((w & 0x0FFF) as usize, PktType::FirstFragPkt, LabelType::ThreeBytesLabel));
    }
    kani::assume(w & 0xF000 == 0x7000);
    Some(((w & 0x0FFF) as usize, PktType::EndFragPkt, LabelType::ReUse))
}

//! Extension-chain models: concrete chain *shapes* (number of entries, class of each
//! entry) with symbolic ids (within the class) and symbolic data bytes.
use crate::models::*;
use crate::spec::*;
use dvb_gse_rust::header_extension::{Extension, ExtensionData, MandatoryHeaderExt, MandatoryHeaderExtensionManager};

#[derive(Copy, Clone, PartialEq, Eq)]
pub enum Class {
    /// optional extension with n data bytes (n in 0,2,4,6,8), id = (n/2+1)<<8 | low
    O(usize),
    /// mandatory extension (id < 0x100) with n data bytes, any id
    M(usize),
    /// mandatory extension with the concrete id given (for manager-known ids)
    MId(u16, usize),
}

#[derive(Copy, Clone)]
pub struct ExtSpec {
    pub id: u16,
    pub data: [u8; 8],
    pub dlen: usize,
    pub mandatory: bool,
}

pub const NO_EXT: ExtSpec = ExtSpec { id: 0, data: [0; 8], dlen: 0, mandatory: false };

pub fn mk_ext(c: Class) -> (Extension, ExtSpec) {
    let data: [u8; 8] = kani::any();
    let low: u8 = kani::any();
    let (id, n, mandatory) = match c {
        Class::O(n) => ((((n / 2 + 1) as u16) << 8) | low as u16, n, false),
        Class::M(n) => (low as u16, n, true),
        Class::MId(id, n) => (id, n, true),
    };
    let e = match Extension::new(id, &data[..n]) {
        Ok(e) => e,
        Err(_) => {
            assert!(false, "C13.extension_new_accepts_valid");
            unreachable!()
        }
    };
    (e, ExtSpec { id, data, dlen: n, mandatory })
}

/// Bytes that must follow the label for the chain `specs[..m]`:
/// data_0, id_1, data_1, ..., id_{m-1}, data_{m-1}, [protocol type unless final].
pub fn ext_area(specs: &[ExtSpec; 4], m: usize, ptype: u16, is_final: bool) -> ([u8; 64], usize) {
    let mut a = [0u8; 64];
    let mut o = 0usize;
    let mut k = 0usize;
    while k < m {
        if k > 0 {
            a[o] = (specs[k].id >> 8) as u8;
            a[o + 1] = specs[k].id as u8;
            o += 2;
        }
        let mut d = 0usize;
        while d < specs[k].dlen {
            a[o] = specs[k].data[d];
            o += 1;
            d += 1;
        }
        k += 1;
    }
    if !is_final {
        a[o] = (ptype >> 8) as u8;
        a[o + 1] = ptype as u8;
        o += 2;
    }
    (a, o)
}

/// Data byte `i` of an extension as stored in the crate's value.
pub fn ext_data_byte(e: &Extension, i: usize) -> Option<u8> {
    match e.data() {
        ExtensionData::Data2(d) => d.get(i).copied(),
        ExtensionData::Data4(d) => d.get(i).copied(),
        ExtensionData::Data6(d) => d.get(i).copied(),
        ExtensionData::Data8(d) => d.get(i).copied(),
        ExtensionData::NoData => None,
        ExtensionData::MandatoryData(v) => v.get(i).copied(),
    }
}

pub fn ext_data_len(e: &Extension) -> usize {
    match e.data() {
        ExtensionData::Data2(_) => 2,
        ExtensionData::Data4(_) => 4,
        ExtensionData::Data6(_) => 6,
        ExtensionData::Data8(_) => 8,
        ExtensionData::NoData => 0,
        ExtensionData::MandatoryData(v) => v.len(),
    }
}

/// Test manager (DESIGN 3.6): 0x10 -> NonFinal(3), 0x11 -> NonFinal(0), 0x20 -> Final(2),
/// 0x21 -> Final(0), everything else unknown.
#[derive(Copy, Clone)]
pub struct TestMgr;
impl MandatoryHeaderExtensionManager for TestMgr {
    fn is_mandatory_header_id_known(&self, id: u16) -> MandatoryHeaderExt {
        match id {
            0x10 => MandatoryHeaderExt::NonFinal(3),
            0x11 => MandatoryHeaderExt::NonFinal(0),
            0x20 => MandatoryHeaderExt::Final(2),
            0x21 => MandatoryHeaderExt::Final(0),
            _ => MandatoryHeaderExt::Unknown,
        }
    }
}

/// Manager that knows exactly the mandatory entries of a chain shape (ids symbolic):
/// the last mandatory entry is Final when `last_is_final`, all others NonFinal.
#[derive(Copy, Clone)]
pub struct ShapeMgr {
    pub ids: [u16; 4],
    pub sizes: [u8; 4],
    pub is_final: [bool; 4],
    pub known: [bool; 4],
}

impl MandatoryHeaderExtensionManager for ShapeMgr {
    fn is_mandatory_header_id_known(&self, id: u16) -> MandatoryHeaderExt {
        if self.known[0] && id == self.ids[0] {
            return if self.is_final[0] { MandatoryHeaderExt::Final(self.sizes[0]) } else { MandatoryHeaderExt::NonFinal(self.sizes[0]) };
        }
        if self.known[1] && id == self.ids[1] {
            return if self.is_final[1] { MandatoryHeaderExt::Final(self.sizes[1]) } else { MandatoryHeaderExt::NonFinal(self.sizes[1]) };
        }
        if self.known[2] && id == self.ids[2] {
            return if self.is_final[2] { MandatoryHeaderExt::Final(self.sizes[2]) } else { MandatoryHeaderExt::NonFinal(self.sizes[2]) };
        }
        if self.known[3] && id == self.ids[3] {
            return if self.is_final[3] { MandatoryHeaderExt::Final(self.sizes[3]) } else { MandatoryHeaderExt::NonFinal(self.sizes[3]) };
        }
        MandatoryHeaderExt::Unknown
    }
}

/// Symbolic chain description for a concrete shape (no crate values involved).
pub fn mk_spec(c: Class) -> ExtSpec {
    let data: [u8; 8] = kani::any();
    let low: u8 = kani::any();
    match c {
        Class::O(n) => ExtSpec { id: (((n / 2 + 1) as u16) << 8) | low as u16, data, dlen: n, mandatory: false },
        Class::M(n) => ExtSpec { id: low as u16, data, dlen: n, mandatory: true },
        Class::MId(id, n) => ExtSpec { id, data, dlen: n, mandatory: true },
    }
}

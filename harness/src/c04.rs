//! C04: label re-use never attributes a PDU to a label the sender did not intend.
//! Sender half: C15's step lemmas (policy + invariant "memory = Some(L) => the preceding
//! start/complete packet carried L"), C09 (failed calls change nothing).  Receiver half:
//! rx.rs (a re-use marker resolves to the remembered label or is rejected; the memory is
//! None or the preceding packet's label after EVERY packet).  Here: the joint step, real
//! sender and real receiver in one formula, for complete packets and for first fragments.
use crate::c15::{after_emit, any_state_and_ghost, ghost_inv, Ghost};
use crate::dmodels::*;
use crate::extm::*;
use crate::models::*;
use crate::spec::*;
use dvb_gse_rust::gse_decap::{DecapStatus, Decapsulator, GseDecapMemory};
use dvb_gse_rust::gse_encap::{EncapMetadata, EncapStatus, Encapsulator};
use dvb_gse_rust::label::Label;

const NP: usize = 4;
const NB: usize = 20;
const Z: usize = 6;

/// Joint invariant: J_live  sender memory Some(L)  =>  receiver memory Some(L)
///                  R       receiver memory is None or the preceding packet's label (prev)
pub fn joint_inv(st: &(bool, u8, u8, Option<Label>), rl: &Option<Label>, gh: &Ghost) -> bool {
    let live = match &st.3 {
        Some(_) => opt_label_eq(rl, &st.3),
        None => true,
    };
    let r = match rl {
        Some(_) => opt_label_eq(rl, &gh.prev),
        None => true,
    };
    live && r
}

pub fn joint_step(first: bool) {
    let (st, mut gh) = any_state_and_ghost();
    // receiver memory: forced by J_live when the sender remembers a label, else None or prev
    let rl: Option<Label> = if st.3.is_some() {
        st.3
    } else {
        let keep: bool = kani::any();
        if keep { gh.prev } else { None }
    };
    kani::assume(joint_inv(&st, &rl, &gh));
    let mut enc = Encapsulator::verif_from_parts(ConstCrc(0), st.0, st.1, st.2, st.3);
    let pdu: [u8; NP] = kani::any();
    let pdu_len = any_len(NP);
    let mut buf: [u8; NB] = kani::any();
    let buf_len = any_len(NB);
    let label = any_label();
    let ptype: u16 = kani::any();
    kani::assume(ptype >= 0x600);
    let prev_before = gh.prev;
    let r = enc.encap(&pdu[..pdu_len], kani::any(), EncapMetadata::new(ptype, label), &mut buf[..buf_len]);
    let st2 = enc.verif_parts();
    let n = match &r {
        Ok(EncapStatus::CompletedPkt(n)) if !first => *n as usize,
        Ok(EncapStatus::FragmentedPkt(n, _)) if first => *n as usize,
        _ => {
            core::mem::forget(enc);
            return;
        }
    };
    after_emit(&st, &st2, &mut gh, &label, buf[0]);
    // receiver with sufficient storage: one free buffer of 6 >= 4 bytes, empty slot
    let (mem, _g) = build_ref_ghost::<1, Z>(&crate::rx::S1_E);
    let mut d = Decapsulator::new(mem, ConstCrc(0), TestMgr);
    d.verif_set_last_label(rl);
    let dr = d.decap(&buf[..n]);
    let rl2 = d.verif_last_label();
    let explicit_reuse = label_eq(&label, &Label::ReUse);
    let md = match &dr {
        Ok((DecapStatus::CompletedPkt(_, md), c)) => {
            assert!(!first && *c == n, "C04.kind_and_length");
            Some(md)
        }
        Ok((DecapStatus::FragmentedPkt(md), c)) => {
            assert!(first && *c == n, "C04.kind_and_length");
            Some(md)
        }
        _ => None,
    };
    match md {
        Some(md) => {
            if explicit_reuse {
                assert!(prev_before.is_some(), "C04.explicit_reuse_needs_preceding_label");
                assert!(label_eq(&md.label(), &prev_before.unwrap()), "C04.explicit_reuse_gets_preceding_label");
                kani::cover!(true, "explicit_reuse_delivered");
            } else {
                assert!(label_eq(&md.label(), &label), "C04.delivered_with_the_label_passed");
                kani::cover!((buf[0] >> 4) & 3 == 3 && label.len() == 6, "substituted_6b_delivered");
                kani::cover!(label.len() == 3, "label3_delivered");
            }
        }
        None => {
            // with sufficient storage every PDU sent with an explicit or broadcast label is delivered
            assert!(explicit_reuse, "C04.explicit_or_broadcast_label_is_delivered");
            kani::cover!(true, "explicit_reuse_without_preceding_label_rejected");
        }
    }
    assert!(ghost_inv(&st2, &gh), "C15.ghost_invariant_preserved");
    assert!(joint_inv(&st2, &rl2, &gh), "C04.joint_invariant_preserved");
    core::mem::forget(dr);
    core::mem::forget(d);
    core::mem::forget(enc);
}

#[kani::proof]
#[kani::unwind(8)]
#[kani::stub(dvb_gse_rust::gse_decap::read_gse_header, crate::dmodels::hdr_complete)]
#[kani::stub(dvb_gse_rust::gse_decap::iterate_over_extension_header, crate::dmodels::walker_unreachable)]
pub fn joint_step_complete() {
    joint_step(false);
}

#[kani::proof]
#[kani::unwind(8)]
#[kani::stub(dvb_gse_rust::gse_decap::read_gse_header, crate::dmodels::hdr_first)]
#[kani::stub(dvb_gse_rust::gse_decap::iterate_over_extension_header, crate::dmodels::walker_unreachable)]
pub fn joint_step_first() {
    joint_step(true);
}

/// Resets at the same frame boundary on both sides, and configuration calls on the sender,
/// preserve the joint invariant.
#[kani::proof]
#[kani::unwind(8)]
pub fn joint_step_reset_config() {
    let (st, mut gh) = any_state_and_ghost();
    let rl: Option<Label> = if st.3.is_some() { st.3 } else if kani::any() { gh.prev } else { None };
    kani::assume(joint_inv(&st, &rl, &gh));
    let mut enc = Encapsulator::verif_from_parts(ConstCrc(0), st.0, st.1, st.2, st.3);
    let (mem, _g) = build_ref_ghost::<1, Z>(&crate::rx::S1_E);
    let mut d = Decapsulator::new(mem, ConstCrc(0), TestMgr);
    d.verif_set_last_label(rl);
    let op: u8 = kani::any();
    kani::assume(op < 4);
    match op {
        0 => {
            enc.reset_last_label();
            d.reset_last_label();
            gh.prev = None;
        }
        1 => enc.disable_re_use_label(),
        2 => enc.enable_re_use_label(),
        _ => enc.enable_re_use_label_with_max_consecutive(kani::any()),
    }
    if op != 0 {
        gh.g = 0;
    }
    let st2 = enc.verif_parts();
    assert!(joint_inv(&st2, &d.verif_last_label(), &gh), "C04.joint_invariant_preserved");
    kani::cover!(op == 0, "reset");
    kani::cover!(op == 1, "disable");
    core::mem::forget(d);
    core::mem::forget(enc);
}

#[cfg(feature = "twins")]
#[kani::proof]
#[kani::unwind(8)]
#[kani::stub(dvb_gse_rust::gse_decap::read_gse_header, crate::dmodels::hdr_complete)]
#[kani::stub(dvb_gse_rust::gse_decap::iterate_over_extension_header, crate::dmodels::walker_unreachable)]
pub fn twin_joint_complete() {
    let (st, _gh) = any_state_and_ghost();
    let mut enc = Encapsulator::verif_from_parts(ConstCrc(0), st.0, st.1, st.2, st.3);
    let pdu: [u8; NP] = kani::any();
    let mut buf: [u8; NB] = kani::any();
    let label = any_label();
    let r = enc.encap(&pdu[..], 0, EncapMetadata::new(0x0800, label), &mut buf[..]);
    if let Ok(EncapStatus::CompletedPkt(n)) = r {
        let (mem, _g) = build_ref_ghost::<1, Z>(&crate::rx::S1_E);
        let mut d = Decapsulator::new(mem, ConstCrc(0), TestMgr);
        d.verif_set_last_label(st.3);
        let dr = d.decap(&buf[..n as usize]);
        if dr.is_ok() && (buf[0] >> 4) & 3 == 3 {
            assert!(false, "TWIN.reachable");
        }
        core::mem::forget(dr);
        core::mem::forget(d);
    }
    core::mem::forget(enc);
}

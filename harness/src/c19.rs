//! C19: peeking the label or fragment id agrees with decapsulation.  P is produced by the
//! real encap / encap_frag / encap_ext and followed by an arbitrary tail; the peek result is
//! the fragment id / label field of the same packet description D that the receiver lemmas
//! (rx.rs, c13) show decap to report.
use crate::extm::*;
use crate::models::*;
use crate::spec::*;
use dvb_gse_rust::gse_decap::{Decapsulator, GetLabelorFragIdError, GseDecapMemory, LabelorFragId, SimpleGseMemory};
use dvb_gse_rust::gse_encap::{ContextFrag, EncapMetadata, EncapStatus, Encapsulator};
use dvb_gse_rust::header_extension::SimpleMandatoryExtensionHeaderManager;
use dvb_gse_rust::label::Label;

const NP: usize = 6;
const NB: usize = 28;

fn peeker() -> Decapsulator<SimpleGseMemory, ConstCrc, SimpleMandatoryExtensionHeaderManager> {
    Decapsulator::new(SimpleGseMemory::new(1, 4, 0, 0), ConstCrc(0), SimpleMandatoryExtensionHeaderManager {})
}

fn check_start(peek: &Result<LabelorFragId, GetLabelorFragIdError>, wl: &Label) {
    match wl {
        Label::ReUse => assert!(matches!(peek, Err(GetLabelorFragIdError::ErrLabelReuse)), "C19.reuse_marker_reports_reuse_error"),
        l => match peek {
            Ok(LabelorFragId::Lbl(x)) => assert!(label_eq(x, l), "C19.peek_returns_the_written_label"),
            _ => assert!(false, "C19.peek_returns_a_label_for_start_packets"),
        },
    }
}

/// Start / complete packets from encap, any label, any sender state, arbitrary tail.
#[kani::proof]
#[kani::unwind(8)]
pub fn peek_encap() {
    let pdu: [u8; NP] = kani::any();
    let pdu_len = any_len(NP);
    let mut buf: [u8; NB] = kani::any();
    let buf_len = any_len(NB);
    let label = any_label();
    let st = any_enc_state();
    let mut enc = Encapsulator::verif_from_parts(ConstCrc(0), st.0, st.1, st.2, st.3);
    let md = EncapMetadata::new(kani::any(), label);
    let r = enc.encap(&pdu[..pdu_len], kani::any(), md, &mut buf[..buf_len]);
    if let Ok(s) = &r {
        let n = match s {
            EncapStatus::CompletedPkt(n) => *n as usize,
            EncapStatus::FragmentedPkt(n, _) => *n as usize,
        };
        let wl = crate::c06::written_label(&st, &label);
        // the packet alone, and the packet followed by whatever is in the rest of the array
        let d = peeker();
        let alone = d.get_label_or_frag_id(&buf[..n]);
        let with_tail = d.get_label_or_frag_id(&buf[..]);
        check_start(&alone, &wl);
        check_start(&with_tail, &wl);
        kani::cover!(matches!(s, EncapStatus::FragmentedPkt(_, _)) && wl.len() == 6, "first_6b");
        kani::cover!(matches!(s, EncapStatus::CompletedPkt(_)) && wl.len() == 3, "complete_3b");
        kani::cover!(label_eq(&wl, &Label::ReUse) && label.len() == 6, "substituted");
        kani::cover!(label_eq(&wl, &Label::Broadcast), "broadcast");
        core::mem::forget(d);
    }
    core::mem::forget(enc);
}

/// Continuation packets from encap_frag: the fragment id, alone and with a tail.
#[kani::proof]
#[kani::unwind(8)]
pub fn peek_encap_frag() {
    let pdu: [u8; NP] = kani::any();
    let pdu_len = any_len(NP);
    let mut buf: [u8; NB] = kani::any();
    let buf_len = any_len(NB);
    let ctx = any_ctx();
    let enc = Encapsulator::new(ConstCrc(0));
    let r = enc.encap_frag(&pdu[..pdu_len], &ctx, &mut buf[..buf_len]);
    if let Ok(s) = &r {
        let n = match s {
            EncapStatus::CompletedPkt(n) => *n as usize,
            EncapStatus::FragmentedPkt(n, _) => *n as usize,
        };
        let d = peeker();
        let alone = d.get_label_or_frag_id(&buf[..n]);
        let with_tail = d.get_label_or_frag_id(&buf[..]);
        assert!(matches!(alone, Ok(LabelorFragId::FragId(f)) if f == ctx.frag_id()), "C19.peek_returns_the_fragment_id");
        assert!(matches!(with_tail, Ok(LabelorFragId::FragId(f)) if f == ctx.frag_id()), "C19.peek_returns_the_fragment_id");
        kani::cover!(matches!(s, EncapStatus::CompletedPkt(_)), "end");
        kani::cover!(matches!(s, EncapStatus::FragmentedPkt(_, _)), "intermediate");
        core::mem::forget(d);
    }
}

/// Start / complete packets with an extension chain (from encap_ext).
pub fn peek_ext_body(classes: &[Class]) {
    let m = classes.len();
    let mut exts = Vec::with_capacity(m);
    let mut k = 0;
    while k < m {
        let (e, _s) = mk_ext(classes[k]);
        exts.push(e);
        k += 1;
    }
    let pdu: [u8; NP] = kani::any();
    let pdu_len = any_len(NP);
    let mut buf: [u8; 40] = kani::any();
    let buf_len = any_len(40);
    let label = any_label();
    let st = any_enc_state();
    let mut enc = Encapsulator::verif_from_parts(ConstCrc(0), st.0, st.1, st.2, st.3);
    let md = EncapMetadata::new(kani::any(), label);
    let r = enc.encap_ext(&pdu[..pdu_len], kani::any(), md, &mut buf[..buf_len], exts);
    if let Ok(s) = &r {
        let n = match s {
            EncapStatus::CompletedPkt(n) => *n as usize,
            EncapStatus::FragmentedPkt(n, _) => *n as usize,
        };
        let wl = crate::c06::written_label(&st, &label);
        let d = peeker();
        let alone = d.get_label_or_frag_id(&buf[..n]);
        let with_tail = d.get_label_or_frag_id(&buf[..]);
        check_start(&alone, &wl);
        check_start(&with_tail, &wl);
        kani::cover!(matches!(s, EncapStatus::FragmentedPkt(_, _)), "first");
        kani::cover!(matches!(s, EncapStatus::CompletedPkt(_)) && wl.len() == 6, "complete_6b");
        core::mem::forget(d);
    }
    core::mem::forget(enc);
}

#[kani::proof]
#[kani::unwind(10)]
pub fn peek_encap_ext_o2() {
    peek_ext_body(&[Class::O(2)]);
}

#[kani::proof]
#[kani::unwind(10)]
pub fn peek_encap_ext_m3_o0() {
    peek_ext_body(&[Class::M(3), Class::O(0)]);
}

#[cfg(feature = "twins")]
#[kani::proof]
#[kani::unwind(8)]
pub fn twin_peek_encap() {
    let pdu: [u8; NP] = kani::any();
    let mut buf: [u8; NB] = kani::any();
    let mut enc = any_encapsulator();
    let md = EncapMetadata::new(kani::any(), any_label());
    let r = enc.encap(&pdu[..], 0, md, &mut buf[..]);
    if r.is_ok() {
        let d = peeker();
        if let Ok(LabelorFragId::Lbl(Label::ThreeBytesLabel(_))) = d.get_label_or_frag_id(&buf[..]) {
            assert!(false, "TWIN.reachable");
        }
        core::mem::forget(d);
    }
    core::mem::forget(enc);
}

//! C15: label re-use policy bounds.  One-step lemma from an arbitrary sender state with two
//! ghosts:  g    = consecutive substituted packets emitted since the last full-label
//!                 start/complete packet or configuration call,
//!          prev = label carried by the last start/complete packet emitted since the last
//!                 reset (None after a reset or a broadcast packet).
//! Invariant:  max > 0 => g <= current <= max;   memory == Some(L) => prev == Some(L).
use crate::extm::*;
use crate::models::*;
use crate::spec::*;
use dvb_gse_rust::gse_encap::{EncapMetadata, EncapStatus, Encapsulator};
use dvb_gse_rust::header_extension::Extension;
use dvb_gse_rust::label::Label;

pub const NP15: usize = 4;
pub const NB15: usize = 24;

pub struct Ghost {
    pub g: u16,
    pub prev: Option<Label>,
}

pub fn repr_inv(st: &(bool, u8, u8, Option<Label>)) -> bool {
    let label_ok = match &st.3 {
        None => true,
        Some(Label::ThreeBytesLabel(_)) => true,
        Some(l @ Label::SixBytesLabel(_)) => !is_zero6(l),
        Some(_) => false,
    };
    st.2 <= st.1 && (st.0 || (st.1 == 0 && st.3.is_none())) && label_ok
}

pub fn ghost_inv(st: &(bool, u8, u8, Option<Label>), gh: &Ghost) -> bool {
    let a = st.1 == 0 || (gh.g <= st.2 as u16 && st.2 <= st.1);
    let b = match &st.3 {
        Some(_) => opt_label_eq(&st.3, &gh.prev),
        None => true,
    };
    a && b
}

/// Arbitrary pre-state + ghosts satisfying the invariant.
pub fn any_state_and_ghost() -> ((bool, u8, u8, Option<Label>), Ghost) {
    let st = any_enc_state();
    let g: u16 = kani::any();
    let prev = if st.3.is_some() {
        let same: bool = kani::any();
        kani::assume(same);
        st.3
    } else {
        // memory empty: prev may be anything (e.g. re-use disabled, or just enabled)
        let some: bool = kani::any();
        if some {
            Some(any_memorable_label())
        } else {
            None
        }
    };
    let gh = Ghost { g, prev };
    kani::assume(ghost_inv(&st, &gh));
    (st, gh)
}

/// Bookkeeping + assertions after one emitted start/complete packet.
pub fn after_emit(
    before: &(bool, u8, u8, Option<Label>),
    after: &(bool, u8, u8, Option<Label>),
    gh: &mut Ghost,
    passed: &Label,
    first_byte: u8,
) {
    let lt_bits = (first_byte >> 4) & 3;
    let marker = lt_bits == 3;
    let substituted = marker && !label_eq(passed, &Label::ReUse);
    if substituted {
        assert!(before.0, "C15.no_substitution_when_disabled");
        assert!(passed.len() == 3 || passed.len() == 6, "C15.substitute_only_3_or_6_byte");
        assert!(opt_label_eq(&gh.prev, &Some(*passed)), "C15.substitute_only_label_of_previous_packet");
        assert!(before.3.is_some(), "C15.full_label_after_reset_or_broadcast");
        // (the count only matters when a maximum is configured)
        gh.g = if after.1 > 0 { gh.g + 1 } else { 0 };
        kani::cover!(before.1 == 255 && before.2 == 254, "substitute_counter_254_of_255");
        kani::cover!(before.1 == 0, "substitute_unbounded");
    } else if marker {
        // explicit re-use label passed by the caller: written as such, memory untouched
        assert!(opt_label_eq(&before.3, &after.3), "C15.explicit_reuse_keeps_memory");
    } else {
        // full label on the wire: bits must be the passed label's type
        assert!(lt_bits == lt_of_label(passed).bits() as u8, "C15.full_label_type");
        gh.g = 0;
        gh.prev = match passed {
            Label::Broadcast => None,
            l => Some(*l),
        };
        if label_eq(passed, &Label::Broadcast) {
            assert!(after.3.is_none(), "C15.broadcast_clears_memory");
        }
        kani::cover!(before.0 && before.1 > 0 && before.2 == before.1 && opt_label_eq(&before.3, &Some(*passed)),
                     "full_label_forced_by_max");
    }
    if after.1 > 0 {
        assert!(gh.g <= after.1 as u16, "C15.at_most_max_consecutive_reuse");
    }
}

/// One encap call (any label, protocol type, PDU <= 2, buffer 0..=24: succeeds as complete,
/// as first fragment, or fails) from an arbitrary state.
#[kani::proof]
#[kani::unwind(8)]
pub fn step_encap() {
    let (st, mut gh) = any_state_and_ghost();
    let mut enc = Encapsulator::verif_from_parts(ConstCrc(0), st.0, st.1, st.2, st.3);
    let pdu_arr: [u8; NP15] = kani::any();
    let mut buf_arr: [u8; NB15] = kani::any();
    let pdu_len = any_len(NP15);
    let buf_len = any_len(NB15);
    let label = any_label();
    let md = EncapMetadata::new(kani::any(), label);
    let r = enc.encap(&pdu_arr[..pdu_len], kani::any(), md, &mut buf_arr[..buf_len]);
    let after = enc.verif_parts();
    if r.is_ok() {
        after_emit(&st, &after, &mut gh, &label, buf_arr[0]);
        kani::cover!(matches!(r, Ok(EncapStatus::FragmentedPkt(_, _))), "first_fragment");
    } else {
        kani::cover!(st.0 && st.3.is_some(), "failed_call");
    }
    assert!(repr_inv(&after), "C15.representation_invariant_preserved");
    assert!(ghost_inv(&after, &gh), "C15.ghost_invariant_preserved");
    core::mem::forget(enc);
}

/// One encap_ext call with a one-entry chain.
#[kani::proof]
#[kani::unwind(10)]
pub fn step_encap_ext() {
    let (st, mut gh) = any_state_and_ghost();
    let mut enc = Encapsulator::verif_from_parts(ConstCrc(0), st.0, st.1, st.2, st.3);
    let (e, _s) = mk_ext(Class::O(2));
    let pdu_arr: [u8; NP15] = kani::any();
    let mut buf_arr: [u8; NB15] = kani::any();
    let pdu_len = any_len(NP15);
    let buf_len = any_len(NB15);
    let label = any_label();
    let md = EncapMetadata::new(kani::any(), label);
    let r = enc.encap_ext(&pdu_arr[..pdu_len], kani::any(), md, &mut buf_arr[..buf_len], vec![e]);
    let after = enc.verif_parts();
    if r.is_ok() {
        after_emit(&st, &after, &mut gh, &label, buf_arr[0]);
        kani::cover!(matches!(r, Ok(EncapStatus::FragmentedPkt(_, _))), "first_fragment");
    } else {
        kani::cover!(st.0 && st.3.is_some(), "failed_call");
    }
    assert!(repr_inv(&after), "C15.representation_invariant_preserved");
    assert!(ghost_inv(&after, &gh), "C15.ghost_invariant_preserved");
    core::mem::forget(enc);
}

/// Configuration calls and reset.
#[kani::proof]
#[kani::unwind(8)]
pub fn step_config() {
    let (st, mut gh) = any_state_and_ghost();
    let mut enc = Encapsulator::verif_from_parts(ConstCrc(0), st.0, st.1, st.2, st.3);
    let op: u8 = kani::any();
    kani::assume(op < 5);
    match op {
        4 => {
            // changing the CRC calculator is not a re-use configuration call: the policy
            // (activated, maximum), the counter and the memory are untouched
            enc.set_crc_calculator(ConstCrc(kani::any()));
            assert!(state_eq(&st, &enc.verif_parts()), "C15.set_crc_calculator_keeps_reuse_policy");
            let _ = enc.get_crc_calculator();
            let _ = enc.is_enabled_re_use_label();
            assert!(state_eq(&st, &enc.verif_parts()), "C15.getters_keep_reuse_policy");
            kani::cover!(st.1 > 0, "set_crc_with_max_configured");
        }
        0 => {
            enc.reset_last_label();
            // both sides reset at the frame boundary
            gh.prev = None;
            assert!(enc.verif_parts().3.is_none(), "C15.reset_clears_memory");
        }
        1 => {
            enc.disable_re_use_label();
            gh.g = 0;
            assert!(!enc.verif_parts().0, "C15.disable_disables");
        }
        2 => {
            enc.enable_re_use_label();
            gh.g = 0;
            assert!(enc.verif_parts().0 && enc.verif_parts().1 == 0, "C15.enable_enables_unbounded");
        }
        _ => {
            let n: u8 = kani::any();
            enc.enable_re_use_label_with_max_consecutive(n);
            gh.g = 0;
            assert!(enc.verif_parts().0 && enc.verif_parts().1 == n, "C15.enable_with_max_sets_max");
            kani::cover!(n == 255, "max_255");
            kani::cover!(n == 0, "max_0");
        }
    }
    let after = enc.verif_parts();
    assert!(repr_inv(&after), "C15.representation_invariant_preserved");
    assert!(ghost_inv(&after, &gh), "C15.ghost_invariant_preserved");
    core::mem::forget(enc);
}

/// The invariants hold for a freshly constructed encapsulator (base case).
#[kani::proof]
#[kani::unwind(8)]
pub fn base_new() {
    let enc = Encapsulator::new(ConstCrc(0));
    let st = enc.verif_parts();
    let gh = Ghost { g: 0, prev: None };
    assert!(repr_inv(&st), "C15.representation_invariant_initial");
    assert!(ghost_inv(&st, &gh), "C15.ghost_invariant_initial");
    assert!(st.0 && st.1 == 0 && st.3.is_none(), "C15.initial_state");
    kani::cover!(true, "reached");
    core::mem::forget(enc);
}

#[cfg(feature = "twins")]
#[kani::proof]
#[kani::unwind(8)]
pub fn twin_step_encap() {
    let (st, _gh) = any_state_and_ghost();
    let mut enc = Encapsulator::verif_from_parts(ConstCrc(0), st.0, st.1, st.2, st.3);
    let pdu_arr: [u8; NP15] = kani::any();
    let mut buf_arr: [u8; NB15] = kani::any();
    let label = any_label();
    let md = EncapMetadata::new(kani::any(), label);
    let r = enc.encap(&pdu_arr[..], 0, md, &mut buf_arr[..]);
    if r.is_ok() && (buf_arr[0] >> 4) & 3 == 3 && label.len() == 6 && st.1 == 7 {
        assert!(false, "TWIN.reachable");
    }
    core::mem::forget(enc);
}

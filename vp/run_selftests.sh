#!/bin/sh
# usage: run_selftests.sh <logfile> <commit:props> ...   e.g.  8421759:C05 fefff70:C05,C08
log=$1; shift
for item in "$@"; do
  c=${item%%:*}; props=$(echo ${item#*:} | tr ',' ' ')
  python3 /verif/vp/selftest.py --revert $c $props >> $log 2>&1
done
echo ALLDONE >> $log

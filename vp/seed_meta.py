#!/usr/bin/env python3
"""Build /verif/seeded/<name>/meta.json from the evaluation logs (/tmp/seedchk_<name>.*) and the agent's notes."""
import json, os, re, sys, glob
root = '/verif/seeded'
for d in sorted(glob.glob(root + '/*')):
    name = os.path.basename(d)
    st = f'/tmp/seedchk_{name}.selftest.log'
    if not os.path.exists(st):
        continue
    txt = open(st).read()
    runs = []
    for m in re.finditer(r'SELFTEST (\S+) (C\d+): exit=(\d+) (\d+)s\n((?:    .*\n)*)', txt):
        lines = [l.strip() for l in m.group(5).splitlines()]
        hits = []
        for l in lines:
            mm = re.search(r'(VIOLATION|FAILED-NOT-REPLAYED|UNDECIDED) property=\S+.*?harness=(\S+) (?:check|checks|reason)=(.*)$', l)
            if mm:
                hits.append({"kind": mm.group(1), "harness": mm.group(2), "what": mm.group(3)[:160]})
        runs.append({"check": m.group(2), "exit": int(m.group(3)), "seconds": int(m.group(4)), "reported": hits[:8]})
    def rc(kind):
        p = f'/tmp/seedchk_{name}.{kind}.log'
        if not os.path.exists(p):
            return None
        t = open(p).read()
        m = re.findall(r'test result: (\w+)\. (\d+) passed; (\d+) failed', t)
        return [{"result": a, "passed": int(b), "failed": int(c)} for a, b, c in m]
    notes = ''
    np_ = os.path.join(d, 'agent_notes.txt')
    if os.path.exists(np_):
        notes = open(np_).read()
    pm = re.match(r'(C\d+)', name)
    prop = pm.group(1) if pm else (runs[0]["check"] if runs else "?")
    old = {}
    mp = os.path.join(d, 'meta.json')
    if os.path.exists(mp):
        old = json.load(open(mp))
    history = old.get("check_runs_history", [])
    if old.get("check_runs") and old.get("check_runs") != runs:
        history.append(old["check_runs"])
    meta = {
        "name": name,
        "property": prop,
        "origin": "independent sub-agent given only the property record(s) and a scratch worktree of /repo" + (" (adversarial round: asked for rare corners; round-4 agent B also read the author's private notes outside /verif, so it is not fully independent)" if name.startswith("B_") else (" (adversarial round: asked for rare corners)" if "_agent" in name and not name.startswith("C") or re.search(r"_agent[456]$", name) else "")),
        "what_it_needs_to_manifest": notes.strip()[:1500],
        "confirmed_by_me": {
            "existing_suite_with_change": rc('suite'),
            "demo_without_change": rc('without'),
            "demo_with_change": rc('with'),
            "how": "vp/eval_seed.sh: scratch worktree of /repo HEAD; demo dropped into tests/, run without and with patch.diff; then cargo test --offline with the patch",
        },
        "check_runs": runs,
        "check_runs_history": history,
        "caught": any(r["exit"] == 1 for r in runs),
    }
    json.dump(meta, open(mp, 'w'), indent=1)
    print(name, "caught" if meta["caught"] else "NOT caught", [(r["check"], r["exit"]) for r in runs])

#!/usr/bin/env python3
"""Validate MANIFEST.json and evidence files against the task schemas (run with python3-vt)."""
import json, sys, glob, os
import jsonschema
root = os.path.dirname(os.path.dirname(os.path.abspath(__file__)))
ms = json.load(open('/root/.vp/MANIFEST.schema.json'))
es = json.load(open('/root/.vp/EVIDENCE.schema.json'))
m = json.load(open(os.path.join(root, 'MANIFEST.json')))
jsonschema.validate(m, ms)
print("MANIFEST ok:", len(m['checks']), "checks,", len(m.get('not_applicable', [])), "n/a")
ids = {json.loads(l)['id'] for l in open(os.path.join(root, 'properties.jsonl'))}
claimed = {c['property_id'] for c in m['checks']}
na = {c['property_id'] for c in m.get('not_applicable', [])}
assert claimed | na == ids and not (claimed & na), (ids - claimed - na, claimed & na)
for f in sorted(glob.glob(os.path.join(root, 'evidence', '*.json'))):
    e = json.load(open(f))
    jsonschema.validate(e, es)
    print(os.path.basename(f), "ok", e['tier'], e['coverage']['evaluations'], e['coverage']['distinct_nontrivial'], e['wall_s'])

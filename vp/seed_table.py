#!/usr/bin/env python3
"""Render the seeded-change table of DESIGN.md section 9.6 from /verif/seeded/*/meta.json."""
import json, glob, os, re
rows = []
for mp in sorted(glob.glob('/verif/seeded/*/meta.json')):
    m = json.load(open(mp))
    notes = m.get("what_it_needs_to_manifest", "")
    first = notes.strip().split("\n")
    summary = ""
    for l in first:
        l = l.strip()
        if len(l) > 30:
            summary = l
            break
    summary = re.sub(r"\s+", " ", summary)[:170]
    catch = []
    for r in m["check_runs"]:
        if r["exit"] == 1:
            hs = sorted({h["harness"] + " / " + h["what"].split(" ")[0] for h in r["reported"] if h["kind"] == "VIOLATION"})
            catch.append(f"{r['check']}: " + "; ".join(hs[:2]))
        else:
            catch.append(f"{r['check']}: exit {r['exit']}")
    hist = ""
    if m.get("check_runs_history"):
        prev = m["check_runs_history"][0]
        hist = " (first round: " + ", ".join(f"{r['check']} exit {r['exit']}" for r in prev) + ")"
    rows.append(f"| {m['name']} | {summary} | {'; '.join(catch)}{hist} |")
print("| seeded change | what it is (agent's words) | result of the checks (exit 1 = replayed VIOLATION) |")
print("|---|---|---|")
print("\n".join(rows))

"""Harness registry: which Kani harnesses decide which property, at which tier, with which
bounds.  Harness names are `<module>::<fn>` inside /verif/harness/src/<module>.rs."""


def H(name, tier="quick", required=True, **kw):
    d = dict(name=name, module=name.split("::")[0], tier=tier, required=required)
    d.update(kw)
    return d


def T(name, **kw):
    """Twin harness: must be violated (vacuity witness for its family)."""
    return H(name, twin=True, **kw)


COMMON_ASSUME = [
    "Kani 0.68 / CBMC 6.11 model of Rust semantics (dev profile: overflow checks on); CaDiCaL verdicts trusted",
    "unwinding assertions enabled: a too-small loop bound is reported as undecided, never as success",
]

PROPS = {}
NA = {}
HOOK_COMMITS = ["63c5e82"]

PROPS["C14"] = dict(
    level="model_checking",
    claim="Bounded model checking whose bound is the whole domain: the solver closes all 65536 header words and all "
          "4x4x4096 (kind, label type, length) triples on the compiled read_gse_header / generate_gse_header, "
          "against an independent decoding of the TS 102 606-1 fixed header. Exhaustive, hence the right level for a finite codec.",
    note="Trusted: Kani/CBMC/CaDiCaL; spec.rs as the reading of the standard's header table.",
    exhaustive=True,
    harnesses=[
        H("c14::read_all_words", bounds="all 65536 header words (full domain)", cost=1),
        H("c14::generate_all_triples", bounds="4 kinds x 4 label types x lengths 0..=4095 (full domain)", cost=1),
        H("c14::generate_masks_length", bounds="all kinds x label types x all u16 lengths", cost=1),
        T("c14::twin_read_all_words", cost=1),
    ],
    functions=["dvb_gse_rust::gse_decap::read_gse_header", "dvb_gse_rust::gse_encap::generate_gse_header"],
    assumptions=COMMON_ASSUME + ["harness/src/spec.rs::spec_header / spec_encode are the reference reading of TS 102 606-1 table 2"],
    outside=[],
)

"""Harness registry: which Kani harnesses decide which property, at which tier, with which
bounds.  Harness names are `<module>::<fn>` inside /verif/harness/src/<module>.rs."""


def H(name, tier="quick", required=True, **kw):
    d = dict(name=name, module=name.split("::")[0], tier=tier, required=required)
    d.update(kw)
    return d


def T(name, **kw):
    """Twin harness: must be violated (vacuity witness for its family)."""
    return H(name, twin=True, **kw)


COMMON_ASSUME = [
    "Kani 0.68 / CBMC 6.11 model of Rust semantics (dev profile: overflow checks on); CaDiCaL verdicts trusted",
    "unwinding assertions enabled: a too-small loop bound is reported as undecided, never as success",
]

PROPS = {}
NA = {}
HOOK_COMMITS = ["63c5e82"]

PROPS["C14"] = dict(
    level="model_checking",
    claim="Bounded model checking whose bound is the whole domain: the solver closes all 65536 header words and all "
          "4x4x4096 (kind, label type, length) triples on the compiled read_gse_header / generate_gse_header, "
          "against an independent decoding of the TS 102 606-1 fixed header. Exhaustive, hence the right level for a finite codec.",
    note="Trusted: Kani/CBMC/CaDiCaL; spec.rs as the reading of the standard's header table.",
    exhaustive=True,
    harnesses=[
        H("c14::read_all_words", bounds="all 65536 header words (full domain)", cost=1),
        H("c14::generate_all_triples", bounds="4 kinds x 4 label types x lengths 0..=4095 (full domain)", cost=1),
        H("c14::generate_masks_length", bounds="all kinds x label types x all u16 lengths", cost=1),
        T("c14::twin_read_all_words", cost=1),
    ],
    functions=["dvb_gse_rust::gse_decap::read_gse_header", "dvb_gse_rust::gse_encap::generate_gse_header"],
    assumptions=COMMON_ASSUME + ["harness/src/spec.rs::spec_header / spec_encode are the reference reading of TS 102 606-1 table 2"],
    outside=[],
)

ENCAP_FNS = ["dvb_gse_rust::gse_encap::Encapsulator::<C>::encap", "dvb_gse_rust::gse_encap::Encapsulator::<C>::encap_frag",
             "dvb_gse_rust::gse_encap::Encapsulator::<C>::check_label_re_use", "dvb_gse_rust::gse_encap::generate_gse_header",
             "dvb_gse_rust::label::Label::{len,get_type,get_bytes}"]
LATTICE = "pdu_len 0..=70000 x buffer_len 0..=70000 (symbolic lengths over zero-filled heap slices of symbolic length), every label/protocol type/frag id/context, arbitrary sender re-use state"
ENC_STATE_INV = "sender pre-state assumed: current<=max, !activated => max==0, label memory None / 3-byte / non-zero 6-byte (DESIGN 3.7; preserved by every public operation, see C15 invariant harness)"

PROPS["C18"] = dict(
    claim="Bounded model checking of encap_preview vs encap and encap_frag_preview vs encap_frag on the compiled code: for ALL "
          "lengths 0..=70000 x 0..=70000, every label, protocol type, fragment context and sender state without substitution, "
          "the solver shows equal kind / packet length / payload length or equal error. Lengths are the only quantified "
          "dimension the previews depend on, so the length lattice is the right bound.",
    note="Trusted: Kani/CBMC/CaDiCaL. ConstCrc stands for the CRC calculator (previews do not compute a CRC).",
    harnesses=[
        H("c18::preview_vs_encap_lattice", bounds=LATTICE, unwind=8, cost=12),
        H("c18::preview_vs_encap_frag_lattice", bounds=LATTICE, cost=5),
        T("c18::twin_preview_vs_encap", cost=5),
    ],
    functions=ENCAP_FNS + ["dvb_gse_rust::gse_encap::encap_preview", "dvb_gse_rust::gse_encap::encap_frag_preview"],
    assumptions=COMMON_ASSUME + [ENC_STATE_INV, "CRC calculator instantiated with ConstCrc (returns a symbolic constant)",
                                 "encap_preview compared only when no re-use substitution applies (re-use off or memory != label), as the property states"],
    outside=["lengths above 70000", "immutability of preview arguments is by type (&-only), not checked by the solver"],
)

PROPS["C11"] = dict(
    claim="Bounded model checking of the fragmentation arithmetic on the compiled encap / encap_frag: for ALL PDU lengths "
          "0..=65535, buffer lengths 0..=70000, context positions, ids and CRCs the solver shows the first-fragment context "
          "counts exactly the carried bytes, each continuation completes or advances by >= 1 byte with id/CRC unchanged, "
          "7-byte buffers always progress, and CRC-only remainders are never answered with an empty fragment.",
    note="Trusted: Kani/CBMC/CaDiCaL. Byte-exact placement of the payload slice is checked at a symbolic index on small packets (byte tier).",
    harnesses=[
        H("c11::first_fragment_lattice", bounds="pdu_len 0..=65535, buffer_len 0..=70000, all labels/ptypes/sender states", unwind=8, cost=10),
        H("c11::continuation_lattice", bounds="pdu_len 0..=65535, buffer_len 0..=70000, every ContextFrag", cost=5),
        T("c11::twin_continuation", cost=3),
    ],
    functions=ENCAP_FNS,
    assumptions=COMMON_ASSUME + [ENC_STATE_INV, "ConstCrc as CRC calculator"],
    outside=["PDU lengths above 65535 (encap rejects them; encap_frag's 16-bit context cannot address them)"],
)

PROPS["C09"] = dict(
    claim="Bounded model checking of encap / encap_frag / both previews on the compiled code from an arbitrary sender state: "
          "for ALL lengths 0..=70000 x 0..=70000 and all metadata the solver shows no panic (slice, overflow, unwrap), "
          "state equality on Err, the mandatory rejections, and (byte tier, <=16/<=32 bytes, symbolic index) an untouched buffer on Err.",
    note="Trusted: Kani/CBMC/CaDiCaL. encap_ext members are bounded to chains of <= 2 (quick) / <= 4 (thorough) entries with <= 8 data bytes each.",
    harnesses=[
        H("c09::encap_lattice", bounds=LATTICE, unwind=8, cost=10),
        H("c09::encap_total_length_limit", bounds=LATTICE + "; re-use disabled", unwind=8, cost=6),
        H("c09::frag_and_previews_lattice", bounds=LATTICE, unwind=8, cost=8),
        H("c09::encap_err_buffer_untouched", bounds="pdu <= 16 bytes, buffer <= 32 bytes, all byte values, symbolic index", unwind=8, cost=8),
        H("c09::frag_err_buffer_untouched", bounds="pdu <= 16 bytes, buffer <= 32 bytes, all byte values, symbolic index", cost=5),
        T("c09::twin_encap_lattice", cost=5),
    ],
    functions=ENCAP_FNS + ["dvb_gse_rust::gse_encap::encap_preview", "dvb_gse_rust::gse_encap::encap_frag_preview"],
    assumptions=COMMON_ASSUME + [ENC_STATE_INV, "ConstCrc as CRC calculator (a user-supplied calculator that panics is outside the claim)"],
    outside=["lengths above 70000", "buffer contents beyond 32 bytes on the Err path (all writes are after the last error return; checked on the byte tier only)"],
)

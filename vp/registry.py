"""Harness registry: which Kani harnesses decide which property, at which tier, with which
bounds.  Harness names are `<module>::<fn>` inside /verif/harness/src/<module>.rs."""


def H(name, tier="quick", required=True, **kw):
    d = dict(name=name, module=name.split("::")[0], tier=tier, required=required)
    d.update(kw)
    return d


def T(name, **kw):
    """Twin harness: must be violated (vacuity witness for its family)."""
    return H(name, twin=True, **kw)


COMMON_ASSUME = [
    "Kani 0.68 / CBMC 6.11 model of Rust semantics (dev profile: overflow checks on); CaDiCaL verdicts trusted",
    "unwinding assertions enabled: a too-small loop bound is reported as undecided, never as success",
]

PROPS = {}
NA = {}
HOOK_COMMITS = ["63c5e82", "0a10dc2"]

PROPS["C14"] = dict(
    level="model_checking",
    claim="Bounded model checking whose bound is the whole domain: the solver closes all 65536 header words and all "
          "4x4x4096 (kind, label type, length) triples on the compiled read_gse_header / generate_gse_header, "
          "against an independent decoding of the TS 102 606-1 fixed header. Exhaustive, hence the right level for a finite codec.",
    note="Trusted: Kani/CBMC/CaDiCaL; spec.rs as the reading of the standard's header table.",
    exhaustive=True,
    harnesses=[
        H("c14::read_all_words", bounds="all 65536 header words (full domain)", cost=1),
        H("c14::generate_all_triples", bounds="4 kinds x 4 label types x lengths 0..=4095 (full domain)", cost=1),
        H("c14::generate_masks_length", bounds="all kinds x label types x all u16 lengths", cost=1),
        T("c14::twin_read_all_words", cost=1),
    ],
    functions=["dvb_gse_rust::gse_decap::read_gse_header", "dvb_gse_rust::gse_encap::generate_gse_header"],
    assumptions=COMMON_ASSUME + ["harness/src/spec.rs::spec_header / spec_encode are the reference reading of TS 102 606-1 table 2"],
    outside=[],
)

ENCAP_FNS = ["dvb_gse_rust::gse_encap::Encapsulator::<C>::encap", "dvb_gse_rust::gse_encap::Encapsulator::<C>::encap_frag",
             "dvb_gse_rust::gse_encap::Encapsulator::<C>::check_label_re_use", "dvb_gse_rust::gse_encap::generate_gse_header",
             "dvb_gse_rust::label::Label::{len,get_type,get_bytes}"]
LATTICE = "pdu_len 0..=70000 x buffer_len 0..=70000 (thorough: 0..=1048576; symbolic lengths over zero-filled heap slices of symbolic length), every label/protocol type/frag id/context, arbitrary sender re-use state"
ENC_STATE_INV = "sender pre-state assumed: current<=max, !activated => max==0, label memory None / 3-byte / non-zero 6-byte (DESIGN 3.7; preserved by every public operation, see C15 invariant harness)"

PROPS["C18"] = dict(
    claim="Bounded model checking of encap_preview vs encap and encap_frag_preview vs encap_frag on the compiled code: for ALL "
          "lengths 0..=70000 x 0..=70000, every label, protocol type, fragment context and sender state without substitution, "
          "the solver shows equal kind / packet length / payload length or equal error. Lengths are the only quantified "
          "dimension the previews depend on, so the length lattice is the right bound.",
    note="Trusted: Kani/CBMC/CaDiCaL. ConstCrc stands for the CRC calculator (previews do not compute a CRC).",
    harnesses=[
        H("c18::preview_vs_encap_lattice", bounds=LATTICE, unwind=8, cost=12),
        H("c18::preview_vs_encap_frag_lattice", bounds=LATTICE, cost=5),
        T("c18::twin_preview_vs_encap", cost=5),
    ],
    functions=ENCAP_FNS + ["dvb_gse_rust::gse_encap::encap_preview", "dvb_gse_rust::gse_encap::encap_frag_preview"],
    assumptions=COMMON_ASSUME + [ENC_STATE_INV, "CRC calculator instantiated with ConstCrc (returns a symbolic constant)",
                                 "encap_preview compared only when no re-use substitution applies (re-use off or memory != label), as the property states"],
    outside=["lengths above 70000", "immutability of preview arguments is by type (&-only), not checked by the solver"],
)

PROPS["C11"] = dict(
    claim="Bounded model checking of the fragmentation arithmetic on the compiled encap / encap_frag: for ALL PDU lengths "
          "0..=65535, buffer lengths 0..=70000, context positions, ids and CRCs the solver shows the first-fragment context "
          "counts exactly the carried bytes, each continuation completes or advances by >= 1 byte with id/CRC unchanged, "
          "7-byte buffers always progress, and CRC-only remainders are never answered with an empty fragment.",
    note="Trusted: Kani/CBMC/CaDiCaL. Byte-exact placement of the payload slice is checked at a symbolic index on small packets (byte tier).",
    harnesses=[
        H("c11::first_fragment_lattice", bounds="pdu_len 0..=65535, buffer_len 0..=70000, all labels/ptypes/sender states", unwind=8, cost=10),
        H("c11::continuation_lattice", bounds="pdu_len 0..=65535, buffer_len 0..=70000, every ContextFrag", cost=5),
        T("c11::twin_continuation", cost=3),
    ],
    functions=ENCAP_FNS,
    assumptions=COMMON_ASSUME + [ENC_STATE_INV, "ConstCrc as CRC calculator"],
    outside=["PDU lengths above 65535 (encap rejects them; encap_frag's 16-bit context cannot address them)"],
)

PROPS["C09"] = dict(
    claim="Bounded model checking of encap / encap_frag / both previews on the compiled code from an arbitrary sender state: "
          "for ALL lengths 0..=70000 x 0..=70000 and all metadata the solver shows no panic (slice, overflow, unwrap), "
          "state equality on Err, the mandatory rejections, and (byte tier, <=16/<=32 bytes, symbolic index) an untouched buffer on Err.",
    note="Trusted: Kani/CBMC/CaDiCaL. encap_ext members are bounded to chains of <= 2 (quick) / <= 4 (thorough) entries with <= 8 data bytes each.",
    harnesses=[
        H("c09::encap_lattice", bounds=LATTICE, unwind=8, cost=10),
        H("c09::encap_total_length_limit", bounds=LATTICE + "; re-use disabled", unwind=8, cost=6),
        H("c09::frag_and_previews_lattice", bounds=LATTICE, unwind=8, cost=8),
        H("c09::encap_err_buffer_untouched", bounds="pdu <= 16 bytes, buffer <= 32 bytes, all byte values, symbolic index", unwind=8, cost=8),
        H("c09::frag_err_buffer_untouched", bounds="pdu <= 16 bytes, buffer <= 32 bytes, all byte values, symbolic index", cost=5),
        T("c09::twin_encap_lattice", cost=5),
    ],
    functions=ENCAP_FNS + ["dvb_gse_rust::gse_encap::encap_preview", "dvb_gse_rust::gse_encap::encap_frag_preview"],
    assumptions=COMMON_ASSUME + [ENC_STATE_INV, "ConstCrc as CRC calculator (a user-supplied calculator that panics is outside the claim)"],
    outside=["lengths above 70000", "buffer contents beyond 32 bytes on the Err path (all writes are after the last error return; checked on the byte tier only)"],
)

BYTE_TIER = "byte tier: PDU <= 8 bytes, buffer <= 24 bytes (thorough: 16 / 40), every byte value, positions via symbolic indices"
EXT_SHAPES_Q = ["o2", "m3", "o2_m0", "m3_o0", "o4_o6", "o8", "o0_o2_o4"]
EXT_SHAPES_T = ["o8_o0", "o6_o4", "o0", "m0", "m8_m2", "m3_o8_m0", "o2_o4_o6_o8", "m0_o0_m3_m2"]
EXT_BOUNDS = "chain shape fixed per harness (O(n)=optional with n data bytes, M(n)=mandatory with n data bytes), ids and data symbolic; PDU <= 5, buffer 0..=36 (thorough: 6 / 52), every label/protocol type/sender state"


def ext_sender_members(cost=60):
    hs = [H(f"c13::sender_{s}", bounds=EXT_BOUNDS, unwind=10, cost=cost, timeout=900, mem_gb=8) for s in EXT_SHAPES_Q]
    # 4-entry chains at the thorough sizes need > 8 GB (5 M SAT variables): optional deepening
    hs += [H(f"c13::sender_{s}", tier="thorough", bounds=EXT_BOUNDS, unwind=10, cost=cost, timeout=(3000 if s.count("_") >= 3 else 1800),
             mem_gb=(24 if s.count("_") >= 3 else 8), required=(s.count("_") < 3)) for s in EXT_SHAPES_T]
    hs += [H("c13::sender_empty_list", bounds="empty extension list; PDU <= 6, buffer <= 48", unwind=8, cost=5)]
    return hs


PROPS["C06"] = dict(
    claim="Bounded model checking of the bytes written by encap / encap_frag / encap_ext on the compiled code: on the byte tier "
          "the solver shows, for every PDU/buffer/label/protocol type/context/sender state within the size bound, that the "
          "output parses under an independent reading of TS 102 606-1 with the right kind bits, label type, GSE length = "
          "written - 2, field order and values, payload slice, CRC trailer, and that nothing at or beyond the returned length "
          "is modified; on the lattice tier it shows the length accounting (<= buffer, <= 4097, = header + payload) for all "
          "lengths 0..=70000.",
    note="Trusted: Kani/CBMC/CaDiCaL; spec.rs::layout as the reading of the standard. Byte equality for payloads longer than the byte tier is outside the claim (length arithmetic is covered there).",
    harnesses=[
        H("c06::encap_bytes", bounds=BYTE_TIER, unwind=8, cost=30, timeout=600),
        H("c06::encap_frag_bytes", bounds=BYTE_TIER, cost=10, timeout=600),
        H("c06::encap_lattice", bounds=LATTICE, unwind=8, cost=15),
        H("c06::encap_frag_lattice", bounds="pdu_len 0..=65535, buffer_len 0..=70000, every ContextFrag", cost=10),
        T("c06::twin_encap_bytes", cost=8),
    ] + ext_sender_members() + [
        H("c14::generate_all_triples", bounds="prerequisite lemma: header encoder for all 4096 lengths", cost=1),
    ],
    functions=ENCAP_FNS + ["dvb_gse_rust::gse_encap::Encapsulator::<C>::encap_ext", "dvb_gse_rust::header_extension::Extension::{new,len,id,data}"],
    assumptions=COMMON_ASSUME + [ENC_STATE_INV, "ConstCrc as CRC calculator (symbolic constant): the CRC *value* is C12's subject",
                                 "written label computed from the pre-state by the re-use rule (C15 checks the rule itself)"],
    prereq_note=["C14 header codec lemma (run as part of this check)"],
    outside=["payload byte equality beyond the byte tier", "extension chains longer than 4 entries or mandatory data longer than 8 bytes",
             "total length field semantics for packets WITH extensions (the property only fixes it without extensions)"],
)

PROPS["C15"] = dict(
    claim="Bounded model checking of one sender step from an ARBITRARY re-use state (activated, max, current, memory) with two ghost "
          "variables (consecutive substitutions, label of the previous start/complete packet): the solver shows that new() "
          "establishes and every encap / encap_ext / reset / disable / enable / enable-with-max(n) call preserves the invariant, "
          "and that every emitted packet obeys the four policy clauses. One inductive step covers call sequences of any length, "
          "including failing calls and the counter at 255.",
    note="Trusted: Kani/CBMC/CaDiCaL. The induction (base + step => all histories) is the standard argument, not a solver result. PDU <= 4, buffer <= 24 bound the packets, not the history.",
    harnesses=[
        H("c15::base_new", bounds="Encapsulator::new", unwind=8, cost=1),
        H("c15::step_encap", bounds="arbitrary state + ghosts; any label / protocol type; PDU <= 4; buffer 0..=24 (complete, first fragment, every error)", unwind=8, cost=15),
        H("c15::step_encap_ext", bounds="same with a one-entry optional extension chain", unwind=10, cost=45, timeout=600),
        H("c15::step_config", bounds="arbitrary state + ghosts; reset / disable / enable / enable_with_max(n) for every n", unwind=8, cost=2),
        T("c15::twin_step_encap", cost=5),
    ],
    functions=ENCAP_FNS + ["dvb_gse_rust::gse_encap::Encapsulator::<C>::{new,reset_last_label,disable_re_use_label,enable_re_use_label,enable_re_use_label_with_max_consecutive,encap_ext}"],
    assumptions=COMMON_ASSUME + ["pre-state constrained only by the representation + ghost invariants that the same harnesses show to be inductive",
                                 "'consecutive re-use packets' counts substituted packets; a configuration call restarts the count (the weaker reading)"],
    outside=["explicit Label::ReUse passed by the caller is written as such and is not counted as a substitution"],
)

DECAP_FNS = ["dvb_gse_rust::gse_decap::Decapsulator::<T,C,M>::{decap,decap_complete,decap_first,decap_intermediate,decap_end}",
             "dvb_gse_rust::gse_decap::iterate_over_extension_header", "dvb_gse_rust::header_extension::Extension::new",
             "dvb_gse_rust::label::Label::new", "dvb_gse_rust::gse_decap::gse_decap_memory::SimpleGseMemory::{new,provision_storage,new_pdu,new_frag,take_frag,save_frag}"]
STUBS_DECAP = ["dvb_gse_rust::gse_decap::read_gse_header -> per-kind spec decoding (sound by the C14 lemma, run as prerequisite)",
               "core::mem::swap -> ptr::read/copy_nonoverlapping/write (std, loop-free)"]
C05_SHAPES = {
    "complete": ["free1", "free0", "occ_full", "ext_bc_free1", "ext_ru_free1", "ext_3b_free1", "ext_6b_free1", "ext_bc_free0"],
    "first": ["free1", "free0", "occ", "s2_slot0", "s2_slot1", "ext_bc_free1", "ext_ru_free1", "ext_3b_free1", "ext_6b_free1", "ext_bc_occ", "ext_nomand_bc_free1"],
    "inter": ["none", "match", "mismatch", "match_full", "match_ext", "s2_match", "s2_mismatch", "s2_empty_slot"],
    "end": ["none", "match", "mismatch", "match_full", "match_ext", "s2_match", "s2_mismatch", "s2_empty_slot"],
}
STUB_HDR = STUBS_DECAP[:1]
STUB_WALKER = "dvb_gse_rust::gse_decap::iterate_over_extension_header -> assert(false) stub in instances that assume type field >= 0x600 (unreachability is checked, not trusted)"
MEMCMP = ["--unwindset", "memcmp.0:8"]


def c05_members():
    hs = []
    for kind, shapes in C05_SHAPES.items():
        for sh in shapes:
            isext = "ext_" in sh and kind in ("complete", "first")
            start = kind in ("complete", "first")
            nb = ("header + label + chain area of 6 bytes (thorough 10) for complete / 2 bytes (thorough 4) for first fragments, one label type per instance, type field < 0x600 (extension walker; every chain that fits)" if isext else
                  ("16 (thorough 24), type field >= 0x600" if start else "16 (thorough 24)"))
            stubs = STUB_HDR + ([STUB_WALKER] if start and not isext else [])
            hs.append(H(f"c05::{kind}_{sh}", bounds=f"arbitrary bytes, symbolic length 0..={nb}; receiver shape '{sh}' over RefMem (storage 6 bytes), all context fields / remembered label / storage contents symbolic; TestMgr",
                        unwind=("complete 5 (thorough 7), first 3 (thorough 4); memcmp 8" if isext else 8), stubs=stubs, cost=(200 if isext else 20), timeout=900, mem_gb=(6 if isext else 3),
                        cbmc_args=(MEMCMP if isext else None)))
    hs.append(H("c05::padding_any", bounds="padding header + arbitrary tail, length 0..=16", unwind=8, stubs=STUB_HDR, cost=5))
    for n in ["simple_end_occ", "simple_end_occ_full", "simple_complete_free1", "simple_first_free1", "simple_first_occ"]:
        hs.append(H(f"c05::{n}", bounds="as the RefMem instance of the same name, with the bundled SimpleGseMemory in the loop (1 slot), type field >= 0x600", unwind=8, stubs=STUBS_DECAP + [STUB_WALKER], cost=30, timeout=900, mem_gb=3))
    hs.append(H("c05::short_unstubbed", bounds="ALL byte strings of length 0..=3, real header reader (no stub), SimpleGseMemory", unwind=9, stubs=STUBS_DECAP[1:] + [STUB_WALKER], cost=20, mem_gb=3))
    hs.append(H("c05::peek_total", bounds="arbitrary bytes, length 0..=16, real header reader", unwind=9, cost=5))
    hs.append(T("c05::twin_end_occ", cost=10, stubs=STUBS_DECAP))
    hs.append(H("c14::read_all_words", bounds="prerequisite lemma: read_gse_header == spec on all 65536 words", cost=1))
    return hs


PROPS["C05"] = dict(
    claim="Bounded model checking of decap on the compiled code, split by packet kind: for EVERY byte string up to the size bound "
          "(every header word, every truncation, every tail) and EVERY receiver state of each heap shape (no context / context on the same, "
          "aliasing or other id / context carrying an extension; free list empty, partly filled, full; any remembered label; any storage "
          "contents) the solver shows decap returns without any panic inside the crate, consumed <= length and consumed >= min(2, length). "
          "All strings of length 0..=3 are checked with the real header reader; the peek function on all strings up to 16 bytes.",
    note="Trusted: Kani/CBMC/CaDiCaL; the per-kind header stub, whose equivalence with read_gse_header on all 65536 words is discharged by the C14 lemma run in the same check.",
    harnesses=c05_members(),
    functions=DECAP_FNS + ["dvb_gse_rust::gse_decap::Decapsulator::get_label_or_frag_id", "dvb_gse_rust::gse_decap::read_gse_header"],
    assumptions=COMMON_ASSUME + ["receiver pre-state: SimpleGseMemory built through the public trait in a concrete heap shape (DESIGN 3.5) with symbolic contents; contexts satisfy pdu_len <= storage length and frag_id % slots == slot; remembered label None / 3-byte / non-zero 6-byte",
                                 "ConstCrc as CRC calculator; TestMgr as extension manager (knows 0x10 NonFinal(3), 0x11 NonFinal(0), 0x20 Final(2), 0x21 Final(0))"],
    prereq_note=["C14 read_all_words"],
    outside=["arbitrary contents beyond 16 (24) bytes; extension chains longer than the bytes available within that bound", "storage buffers larger than 6 bytes", "memories with more than 2 slots"],
)

C17_SIMPLE_Q = ["new_frag_s1_occ_full", "provision_s1_occ_free2", "provision_s2_occ2_free2", "take_s3", "new_frag_s3", "provision_s1_empty", "provision_s1_some", "provision_s1_full", "provision_s1_small", "provision_s1_small_full", "provision_s2_full",
                "new_pdu_s1_empty", "new_pdu_s1_some", "new_pdu_s2", "take_s1_empty", "take_s1_occ", "take_s2_one", "take_s2_both",
                "new_frag_s1_empty_nobuf", "new_frag_s1_empty", "new_frag_s1_occ", "new_frag_s2", "save_s1_empty", "save_s1_occ", "save_s2"]
C17_SIMPLE_T = ["save_s3", "provision_s3"]
C17_REF = ["take_s1_empty", "new_frag_s1_empty_nobuf", "provision_s1_some", "provision_s1_full", "provision_s1_small", "new_pdu_s1_empty", "new_pdu_s1_some", "take_s1_occ", "take_s2_both",
           "new_frag_s1_empty", "new_frag_s1_occ", "new_frag_s2", "save_s1_occ", "save_s2"]
C17_BOUNDS = "one trait operation with symbolic arguments (any fragment id, any context) from every state of the named heap shape (slots 1/2/3, slots empty or occupied, 0..capacity free buffers of sizes below/at/above the configured 4 bytes); contexts, buffer contents symbolic; post-state observed by draining through the trait"


def c17_simple(tier_t=True):
    def fam(n):
        return "simple_" + "_".join(n.split("_s")[0:1])
    hs = [H(f"c17::simple_{n}", bounds=C17_BOUNDS, unwind=6, stubs=STUBS_DECAP[1:], cost=10, mem_gb=3, covers="any", family=fam(n)) for n in C17_SIMPLE_Q]
    if tier_t:
        hs += [H(f"c17::simple_{n}", tier="thorough", bounds=C17_BOUNDS, unwind=6, stubs=STUBS_DECAP[1:], cost=20, mem_gb=4, covers="any", family=fam(n)) for n in C17_SIMPLE_T]
    return hs


def c17_ref():
    return [H(f"c17::ref_{n}", bounds="same contract lemma on the harness's RefMem (so that decap harnesses may use it in place of the bundled memory)", unwind=6, cost=8, mem_gb=3, covers="any", family="ref_" + n.split("_s")[0]) for n in C17_REF]


PROPS["C17"] = dict(
    claim="Bounded model checking of the bundled SimpleGseMemory against the trait contract, one operation at a time from EVERY state of "
          "concrete heap shapes (1, 2 and 3 slots): provisioning (capacity, size, same buffer handed back), new_pdu (fails only when "
          "empty), new_frag (replaces the slot's context and reuses its buffer, else a free buffer), take_frag (exactly the saved "
          "context and buffer by pointer identity, otherwise UndefinedId with the memory unchanged, aliasing ids included), save_frag "
          "(occupied slot refused); buffer contents untouched. One step from an arbitrary state covers operation sequences of any length.",
    note="Trusted: Kani/CBMC/CaDiCaL; mem::swap replaced by a loop-free equivalent. The same lemmas are discharged for the harness's RefMem, which the decapsulation harnesses use as the memory.",
    harnesses=c17_simple() + c17_ref() + [T("c17::twin_take", cost=5, stubs=STUBS_DECAP[1:])],
    functions=["dvb_gse_rust::gse_decap::gse_decap_memory::SimpleGseMemory::{new,provision_storage,new_pdu,new_frag,take_frag,save_frag}"],
    assumptions=COMMON_ASSUME + ["pre-states are built through the public trait (new, save_frag, provision_storage) in concrete heap shapes; every state reachable through the trait has one of these shapes up to slot count / free count",
                                 "free-list ORDER is not part of the contract (bag semantics)"],
    outside=["memories with more than 3 slots", "Vec::with_capacity returning more than the requested capacity (it returns exactly S+2 in Kani's model and in practice for this element size)"],
)

RX_BOUNDS = ("every byte string of <= 16 bytes (thorough 24) whose prefix parses to a well-formed packet of the kind, followed by an arbitrary tail; "
             "receiver = RefMem with storage 6 bytes in the named heap shape, every context field / storage byte / remembered label symbolic; "
             "RecCrc returns a symbolic value and records its arguments")
RX_END = ["end_match", "end_match_full", "end_match_ext", "end_mismatch", "end_none", "end_s2_match", "end_s2_mismatch", "end_s2_none"]
RX_INTER = ["inter_match", "inter_match_full", "inter_match_ext", "inter_mismatch", "inter_none", "inter_s2_match", "inter_s2_mismatch", "inter_s2_none"]


RX_COMPLETE = ["complete_free", "complete_nofree", "complete_occ_full", "complete_s2"]
RX_FIRST = ["first_empty", "first_empty_nobuf", "first_occ", "first_occ_ext", "first_s2_occ_slot", "first_s2_empty_slot"]


def rx_members(names, cost=20, whole_family=True, **kw):
    return [H(f"rx::{n}", bounds=RX_BOUNDS + ("; type field >= 0x600 (extension walker replaced by an assert-unreachable stub)" if n.startswith(("complete", "first")) else ""),
              unwind=8, stubs=STUB_HDR + ([STUB_WALKER] if n.startswith(("complete", "first")) else []), cost=cost, mem_gb=4, timeout=600,
              covers="any", family=(n.split("_")[0] if whole_family else None), **kw) for n in names]


PROPS["C03"] = dict(
    claim="Bounded model checking of the receiver's reassembly step on the compiled decap, from an ARBITRARY open context and storage: "
          "an end fragment yields a completed PDU only if the bytes received since the first fragment have exactly the announced total "
          "length and the calculator's value over (those bytes, the first fragment's protocol type, total length, label bytes or none "
          "after re-use) equals the trailer; what is delivered is the stored prefix followed by this packet's payload with the first "
          "fragment's metadata; an intermediate fragment appends exactly its payload at the current offset or drops the train; packets "
          "of other ids change nothing. By induction over the packet sequence the delivered bytes are the arrival-order concatenation "
          "since the most recent first fragment, so loss, duplication, truncation or splicing is caught by the length / CRC tests.",
    note="Trusted: Kani/CBMC/CaDiCaL; header stub (C14 lemma); RefMem in place of the bundled memory (C17 lemmas, run as prerequisites). Burst detection is a property of CRC-32 itself: checked for DefaultCrc on 15-byte messages in the thorough tier; the extension to all lengths is the generator-polynomial argument, not a solver result.",
    harnesses=rx_members(RX_END) + rx_members(RX_INTER) + rx_members(RX_FIRST) + [T("rx::twin_end_match", cost=5, stubs=STUB_HDR),
              H("c14::read_all_words", bounds="prerequisite lemma: header reader == spec on all 65536 words", cost=1)] + c17_simple(False),
    functions=DECAP_FNS,
    assumptions=COMMON_ASSUME + ["receiver pre-state: concrete heap shape, contexts with bytes-received <= storage length; remembered label None / 3-byte / non-zero 6-byte",
                                 "case split on 'context is for this id / for an aliasing id / absent' by one harness each (literal assume(false) on the excluded case)"],
    prereq_note=["C14 read_all_words", "C17 contract lemmas for SimpleGseMemory"],
    outside=["storage buffers larger than 70000 bytes (storage up to 70000 bytes, where the 16-bit counters of the context could wrap, is covered by rxl::*_big_storage)", "byte strings longer than 16 (24) bytes", "storage larger than 6 bytes"],
)


RX_TWIN = [T("rx::twin_end_match", cost=5, stubs=STUB_HDR)]
PREREQ_HDR = [H("c14::read_all_words", bounds="prerequisite lemma: header reader == spec on all 65536 words", cost=1)]
RX_ASSUME = COMMON_ASSUME + [
    "receiver pre-state: RefMem in a concrete heap shape (1 or 2 slots; slots empty/occupied; 0..3 free buffers of 6 bytes), contexts with bytes-received <= storage length; remembered label None / 3-byte / non-zero 6-byte",
    "case splits by harness instance with a literal assume(false) on the excluded case: context for this id / aliasing id / absent; slot index of the packet's id",
    "RefMem stands for the bundled SimpleGseMemory: both satisfy the same contract lemmas (C17), run as prerequisites; decap is generic in the memory, so the substitution is by parametricity (an argument, not a solver result)",
]
RX_OUTSIDE = ["byte strings longer than 16 (24) bytes", "storage other than 6 bytes; more than 2 slots", "packets with extension headers are covered by the C13 members only"]

PROPS["C01"] = dict(
    claim="Bounded model checking of both halves of the unfragmented round trip on the compiled code. Sender: for ALL lengths 0..=70000 x 0..=70000 "
          "encap reports CompletedPkt if and only if type + written label + PDU fit 4095 bytes and the buffer holds the packet, with n = 4 + label + PDU "
          "(lattice), and the bytes are the standard's complete-packet layout of exactly (protocol type, written label, PDU) (byte tier). Receiver: for "
          "EVERY byte string that is such a layout and every receiver state, decap delivers the same bytes, length, protocol type and label (re-use "
          "resolved through the remembered label) and consumes exactly n, whenever a storage buffer of at least the PDU length is free. A one-formula "
          "member feeds the real sender's output to the real receiver with the bundled memory.",
    note="Trusted: Kani/CBMC/CaDiCaL; spec.rs::layout as the meeting point of the two halves (cross-checked by the one-formula member); header stub (C14). Byte equality is bounded by PDU <= 8..16 (sender) / 12..20 (receiver) bytes; lengths are unbounded up to 70000.",
    harnesses=[H("c01::complete_iff_fits_lattice", bounds=LATTICE + "; protocol type >= 0x600, non-zero label", unwind=8, cost=15),
               H("c06::encap_bytes", bounds=BYTE_TIER, unwind=8, cost=30, timeout=600),
               H("c01::joint_complete_roundtrip", bounds="one formula: real encap (PDU <= 6, buffer <= 20, any label, any sender state) -> real decap over SimpleGseMemory(1 slot, storage 6)", unwind=8,
                 stubs=STUBS_DECAP + [STUB_WALKER], cost=30, mem_gb=6),
               T("c01::twin_complete_lattice", cost=5)] + rx_members(RX_COMPLETE) + RX_TWIN + PREREQ_HDR,
    functions=ENCAP_FNS + DECAP_FNS,
    assumptions=RX_ASSUME + [ENC_STATE_INV],
    prereq_note=["C14 header codec", "C17 memory contract"],
    outside=RX_OUTSIDE + ["PDU byte equality beyond the byte tier (length arithmetic is covered up to 70000)"],
)

PROPS["C07"] = dict(
    claim="Bounded model checking of a non-interference step on the compiled decap: from EVERY state in which a slot holds an arbitrary reassembly "
          "(context + storage, identified by pointer), one packet of each kind carrying another fragment id — accepted or rejected, mapping to another slot "
          "or aliasing to the same slot — leaves that context, that buffer and its contents exactly as they were; only a first fragment claiming the slot "
          "replaces it; a PDU is delivered exactly at its own end fragment, which removes its context (a second end fragment finds no context). By induction "
          "over the packet sequence this covers every order-preserving interleaving; none is enumerated.",
    note="Trusted: Kani/CBMC/CaDiCaL; header stub (C14); RefMem for the bundled memory, tied by the C17 lemmas (which include: take_frag with an aliasing id leaves the memory unchanged).",
    harnesses=rx_members(RX_END) + rx_members(RX_INTER) + rx_members(RX_FIRST) + rx_members(RX_COMPLETE) + RX_TWIN + PREREQ_HDR + c17_simple(False)
              + [H("c10::padding_consumes_rest", bounds="zero nibble + arbitrary bytes, length 2..=64; occupied slot", unwind=8, stubs=STUB_HDR, cost=5)],
    functions=DECAP_FNS,
    assumptions=RX_ASSUME,
    prereq_note=["C14 read_all_words", "C17 contract lemmas for SimpleGseMemory"],
    outside=RX_OUTSIDE,
)

PROPS["C08"] = dict(
    claim="Bounded model checking of a conservation step on the compiled decap: every storage buffer is identified by its heap address; from EVERY state of "
          "each heap shape (free list empty / partly filled / full), after one decap of ANY packet of each kind — delivered, or rejected for unknown or aliasing id, "
          "unresolvable re-use label, CRC or length mismatch, oversize fragment, zero label, no storage — the number of buffers held by the memory plus the one "
          "handed to the caller (in CompletedPkt, or inside ErrorMemory(StorageOverflow|BufferTooSmall)) equals the number before, and the buffer the call "
          "worked on is in exactly one place. Memory operations themselves conserve buffers by the C17 lemmas. One step covers histories of any length.",
    note="Trusted: Kani/CBMC/CaDiCaL; header stub (C14); RefMem for the bundled memory (C17 lemmas run as prerequisites). Extension-carrying packets: see C13.",
    harnesses=rx_members(RX_END) + rx_members(RX_INTER) + rx_members(RX_FIRST) + rx_members(RX_COMPLETE) + RX_TWIN + PREREQ_HDR + c17_simple(False),
    functions=DECAP_FNS,
    assumptions=RX_ASSUME,
    prereq_note=["C14 read_all_words", "C17 contract lemmas for SimpleGseMemory"],
    outside=RX_OUTSIDE + ["memories that violate the trait documentation"],
)

PROPS["C10"] = dict(
    claim="Bounded model checking of the frame-walk step on the compiled decap: in every receiver lemma the packet is followed by an ARBITRARY tail and the "
          "asserted outcome (status, metadata, payload, error class) is a function of the packet and the receiver state only, and the consumed length is the "
          "packet's own length for delivered packets and for bad CRC / unknown id / no storage / unresolvable re-use / oversize; k >= 2 bytes starting with a zero "
          "nibble are padding consuming the rest; the sender never emits a zero first nibble (C06 members). Induction on the walk gives the statement for any number of packets.",
    note="Trusted: Kani/CBMC/CaDiCaL; header stub (C14); RefMem (C17). Where two rejection causes coincide only Err + own length is asserted (the property fixes no priority). Packets with extension headers: C13 members.",
    harnesses=[H("c10::padding_consumes_rest", bounds="zero nibble + arbitrary bytes, length 2..=64; arbitrary receiver state", unwind=8, stubs=STUB_HDR, cost=5),
               H("c10::frame_walk_packet_then_padding", bounds="one formula: real encap (3-byte PDU, broadcast) + zero padding in a 16-byte frame, walked by two real decap calls", unwind=8,
                 stubs=["read_gse_header -> complete-or-padding spec stub", STUB_WALKER], cost=15, required=False),
               T("c10::twin_padding", cost=3, stubs=STUB_HDR),
               H("c06::encap_bytes", bounds=BYTE_TIER + " (first nibble of every emitted start packet != 0)", unwind=8, cost=30, timeout=600),
               H("c06::encap_frag_bytes", bounds=BYTE_TIER + " (first nibble of every emitted continuation packet != 0)", cost=10, timeout=600)]
              + rx_members(RX_END) + rx_members(RX_INTER) + rx_members(RX_FIRST) + rx_members(RX_COMPLETE) + PREREQ_HDR,
    functions=DECAP_FNS + ENCAP_FNS,
    assumptions=RX_ASSUME,
    prereq_note=["C14 read_all_words", "C06 sender layout lemmas"],
    outside=RX_OUTSIDE + ["tails longer than the byte-string bound minus the packet"],
)

PROPS["C12"] = dict(
    claim="Bounded model checking of DefaultCrc on the compiled code against a bitwise CRC-32/MPEG-2 reference: (a) for ALL 2^40 (total length, protocol type, byte) "
          "triples, appending one PDU byte (and likewise one label byte) applies exactly one MSB-first polynomial-0x04C11DB7 step to the register — the register after "
          "four arbitrary prefix bytes ranges over all 2^32 states, so every table index is exercised in every state; (b) the 4-byte prefix is total length then protocol "
          "type, big endian, from 0xFFFFFFFF; (c) differential equality for label length 0/3/6 and PDU <= 8 (16) bytes; (d) the catalogue check value; (e) wiring: the "
          "sender hands the calculator (whole PDU, protocol type, 2 + written label + PDU, label as written) once per first fragment and puts its result big-endian at the "
          "end of the end fragment; the receiver hands it (reassembled bytes, first fragment's fields, no label after re-use).",
    note="Trusted: Kani/CBMC/CaDiCaL. Lengths beyond the differential bound follow from (a)+(b) by induction over Iterator::fold — an argument about the fold, not a solver result.",
    harnesses=[H("c12::header_prefix", bounds="all 2^32 (total length, protocol type) pairs", unwind=12, cost=15),
               H("c12::byte_step_pdu", bounds="all (total length, protocol type, byte) triples", unwind=12, cost=15),
               H("c12::byte_step_label", bounds="all (total length, protocol type, byte) triples", unwind=12, cost=15),
               H("c12::differential", bounds="label length 0/3/6, PDU length 0..=8 (thorough 24), all bytes", unwind=26, cost=60, timeout=900),
               H("c12::check_value", bounds="catalogue check string 123456789", unwind=12, cost=5),
               H("c12::sender_wiring", bounds="PDU <= 12, buffer <= 24, any label / sender state; RecCrc records the call", unwind=8, cost=30),
               H("c06::encap_frag_bytes", bounds=BYTE_TIER + " (CRC trailer = context CRC, big endian, last four bytes)", cost=10, timeout=600),
               T("c12::twin_byte_step", cost=2)] + rx_members(["end_match", "end_match_ext"], whole_family=False),
    functions=["dvb_gse_rust::crc::DefaultCrc::calculate_crc32", "dvb_gse_rust::crc::crc32"] + ENCAP_FNS[:2] + DECAP_FNS[:1],
    assumptions=COMMON_ASSUME + ["spec.rs::crc_bit_step is the reference (eight explicit shift/xor steps); anchored by the catalogue check value 0x0376E6E7"],
    outside=["PDUs longer than 16 bytes in the differential member (covered by the induction argument)"],
)

C13_RX_Q = ["rx_complete_bc_m3_o8_m0", "rx_complete_bc_o8", "rx_complete_bc_o2", "rx_complete_6b_o0", "rx_complete_3b_m3", "rx_complete_ru_o4_o6", "rx_complete_bc_o2_mfinal", "rx_complete_bc_mfinal2",
            "rx_complete_bc_unknown_m3", "rx_complete_bc_unknown_second"]
C13_RX_T = ["rx_complete_bc_o2_o4_o6_o8"]
# first fragments WITH extensions on the receiver side: ~17 min and ~25 GB each (measured) -> optional deepening, thorough tier only
C13_RX_OPT = ["rx_first_bc_o2", "rx_first_6b_m3_o0", "rx_first_bc_mfinal0", "rx_first_bc_unknown_m0"]
C13_RX_BOUNDS = ("every packet that is the standard's layout of (kind, label type, chain of the named shape with symbolic ids and data, protocol type, payload <= 6 bytes) "
                 "followed by an arbitrary tail, buffer <= 48 bytes; receiver: RefMem (1 slot, one free 6-byte buffer), manager knowing exactly the chain's mandatory ids "
                 "(or all but one in the 'unknown' members), arbitrary remembered label")

def c13_unwindset(name):
    # chain length from the harness name: entries are the tokens after the label type
    toks = name.split("_")[3:]
    toks = [t for t in toks if t not in ("unknown", "second")]
    m = max(1, len(toks))
    k = m + 2
    return {"iterate_over_extension_header": k, "header_extension9Extension": k, "memcmp": 8}


PROPS["C13"] = dict(
    claim="Bounded model checking of both sides of the extension-header path on the compiled code, joined by the packet layout of spec.rs. Sender: for each chain shape "
          "(1..2 entries quick, up to 4 thorough; every optional H-LEN class; mandatory entries of 0/2/3/8 data bytes) with symbolic ids and data, every label, protocol "
          "type and buffer length, encap_ext returns Ok only for encodable combinations and then the bytes are exactly the standard's layout of that chain, with the "
          "on-wire length reported (complete and first fragment). Receiver: every such layout is decoded to exactly the same ordered extension list, protocol type, label "
          "and PDU; a chain with a mandatory id unknown to the manager is dropped consuming exactly its own length. Constructor: for ALL 65536 ids x data lengths 0..=10, "
          "Extension::new never panics and succeeds exactly per the H-LEN table.",
    note="Trusted: Kani/CBMC/CaDiCaL; spec.rs (layout, ext_area) as the meeting point of the sender and receiver lemmas; header stub (C14). Continuation of a fragmented PDU with extensions is the C02/C03 step (the context keeps the list: rx lemmas).",
    harnesses=[H("c13::extension_new_total", bounds="all 65536 ids x data length 0..=10, all data bytes", unwind=12, cost=5)]
              + ext_sender_members()
              + [H(f"c13::{n}", bounds=C13_RX_BOUNDS, unwind="24 for the harness's own packet writer; walker / Vec<Extension> drop / clone loops: chain length + 2; memcmp 8",
                   unwindset=c13_unwindset(n), stubs=["read_gse_header -> per-kind-and-label-type spec stub (C14 lemma)"], cost=200, timeout=1200, mem_gb=6, covers="any", family="rx_ext") for n in C13_RX_Q]
              + [H(f"c13::{n}", tier="thorough", required=False, bounds=C13_RX_BOUNDS, unwind="24; walker etc.: chain length + 2", unwindset=c13_unwindset(n),
                   stubs=["read_gse_header -> per-kind-and-label-type spec stub (C14 lemma)"], cost=900, timeout=3000, mem_gb=32, covers="any") for n in C13_RX_OPT]
              + [H(f"c13::{n}", tier="thorough", bounds=C13_RX_BOUNDS, unwind="24; walker etc.: chain length + 2", unwindset=c13_unwindset(n),
                   stubs=["read_gse_header -> per-kind-and-label-type spec stub (C14 lemma)"], cost=300, timeout=2400, mem_gb=12, covers="any", family="rx_ext") for n in C13_RX_T]
              + [T("c13::twin_sender_o2", cost=40), T("c13::twin_rx_complete_bc_o2", cost=60, stubs=STUB_HDR)] + PREREQ_HDR
              + rx_members(["inter_match_ext", "end_match_ext"], whole_family=False),
    functions=ENCAP_FNS + DECAP_FNS + ["dvb_gse_rust::gse_encap::Encapsulator::<C>::encap_ext", "dvb_gse_rust::header_extension::Extension::new"],
    assumptions=COMMON_ASSUME + [ENC_STATE_INV, "distinct ids among the mandatory entries of one chain", "ConstCrc as calculator"],
    prereq_note=["C14 header codec"],
    outside=["chains longer than 4 entries; mandatory data longer than 8 bytes; PDUs longer than 5..6 bytes on this path", "total-length / CRC semantics with extensions beyond what the crate's own sender and receiver agree on"],
)

PROPS["C19"] = dict(
    claim="Bounded model checking of the peek function against the real senders on the compiled code: for every packet written by encap / encap_frag / encap_ext "
          "(PDU <= 6, every label kind and value, every fragment id, sender re-use state arbitrary so that substituted labels occur, chains of 1..2 extensions), presented "
          "alone and followed by arbitrary bytes, get_label_or_frag_id returns the fragment id for intermediate / end packets, the written label for start / complete packets "
          "(also with extensions) and the re-use error when the label was replaced. decap reports the same label field / files the context under the same fragment id by the "
          "receiver lemmas (rx.rs, c13), which are stated on the same packet layout.",
    note="Trusted: Kani/CBMC/CaDiCaL. Agreement with decap is by transitivity through the packet layout (spec.rs) shared with the receiver lemmas, which this check runs for the complete and first kinds.",
    harnesses=[H("c19::peek_encap", bounds="PDU <= 6, buffer <= 28, any label / protocol type / sender state; packet alone and with arbitrary tail", unwind=8, cost=25),
               H("c19::peek_encap_frag", bounds="PDU <= 6, buffer <= 28, every ContextFrag; alone and with tail", unwind=8, cost=15),
               H("c19::peek_encap_ext_o2", bounds="one optional 2-byte extension; PDU <= 6, buffer <= 40", unwind=10, cost=80, timeout=900),
               H("c19::peek_encap_ext_m3_o0", bounds="mandatory(3) + optional(0) chain; PDU <= 6, buffer <= 40", unwind=10, cost=120, timeout=900, mem_gb=8),
               T("c19::twin_peek_encap", cost=10)] + rx_members(["complete_free", "first_empty", "end_match", "inter_match"], whole_family=False) + PREREQ_HDR,
    functions=["dvb_gse_rust::gse_decap::Decapsulator::get_label_or_frag_id", "dvb_gse_rust::gse_decap::read_gse_header"] + ENCAP_FNS,
    assumptions=COMMON_ASSUME + [ENC_STATE_INV],
    outside=["packets longer than 28 (40) bytes; chains longer than 2 on this check (the label precedes the chain, so the chain length does not move it)"],
)

PROPS["C20"] = dict(
    claim="Bounded model checking of the four utils packet structs on the compiled code: for every well-formed description (all label kinds and values, fragment ids, protocol "
          "types, total lengths, CRC values, payloads of 0..=8 bytes) parse(generate(x)) == x, the generated bytes are the standard's layout of exactly those fields, they are "
          "byte for byte what the real encap (complete) / encap_frag (intermediate, end) write for the same fields, and — being that layout — they are accepted by decap "
          "with the same field values by the receiver lemmas.",
    note="Trusted: Kani/CBMC/CaDiCaL; spec.rs::layout. First-fragment equality with encap goes through the layout (c06::encap_bytes asserts the same fields at the same offsets). parse panics on padding headers by design of the helper; ill-formed descriptions are excluded by the property.",
    harnesses=[H("c20::complete_roundtrip_and_codec", bounds="payload <= 8, all fields symbolic; compared with encap output at a symbolic index", unwind=10, cost=40),
               H("c20::first_roundtrip", bounds="payload <= 8, all fields symbolic", unwind=10, cost=20),
               H("c20::continuation_roundtrip_and_codec", bounds="payload <= 8, all fields symbolic; compared with encap_frag output at a symbolic index", unwind=10, cost=40),
               H("c06::encap_bytes", bounds=BYTE_TIER + " (first-fragment field offsets)", unwind=8, cost=30, timeout=600),
               T("c20::twin_complete", cost=2)] + rx_members(["complete_free", "first_empty", "end_match", "inter_match"], whole_family=False) + PREREQ_HDR,
    functions=["dvb_gse_rust::utils::{GseCompletePacket,GseFirstFragPacket,GseIntermediatePacket,GseEndFragPacket}::{generate,parse}"] + ENCAP_FNS[:2],
    assumptions=COMMON_ASSUME + ["gse_len consistent with the fields (the property's well-formedness premise)"],
    outside=["payloads longer than 8 bytes (the serialisers copy the payload with one copy_from_slice; offsets do not depend on its length beyond the header)"],
)

PROPS["C02"] = dict(
    claim="Bounded model checking of every step of the fragmented transfer on the compiled code, composed by induction over the buffer schedule. Sender steps from an ARBITRARY "
          "position: encap (first fragment) and encap_frag (continuation) write exactly the standard's layout of (kind, id, total length = 2 + written label + PDU, type, label, "
          "payload = the next slice of the PDU, context CRC at the end), return a context advanced by exactly that slice with id/CRC unchanged, reject or progress — for ALL lengths "
          "0..=65535 / buffers 0..=70000 — and never reject a buffer of 13 bytes or more; the context CRC is the calculator's value over the whole PDU. Receiver steps from an ARBITRARY "
          "context: a first fragment opens a context holding its payload at offset 0 and its fields; an intermediate fragment appends at the current offset; an end fragment delivers "
          "stored prefix ++ payload with the first fragment's label and protocol type exactly when total length and CRC agree; each consumes exactly its packet length.",
    note="Trusted: Kani/CBMC/CaDiCaL; spec.rs::layout joins sender and receiver lemmas; RefMem (C17). The induction itself (invariant: receiver offset = sender position, stored prefix = PDU prefix) and the CRC equality across sides (same calculator, same arguments: c12 + rx C12 labels) are arguments over these lemmas. Byte equality per step is bounded by the byte tier; the literal first+end one-formula member did not finish within 24 GB and is an optional thorough member.",
    harnesses=[H("c02::thirteen_bytes_always_accepted", bounds="pdu_len 0..=65535, buffer 13..=70000, any label / type / state / context", unwind=8, cost=20),
               H("c06::encap_bytes", bounds=BYTE_TIER, unwind=8, cost=30, timeout=600),
               H("c06::encap_frag_bytes", bounds=BYTE_TIER, cost=10, timeout=600),
               H("c06::encap_lattice", bounds=LATTICE, unwind=8, cost=15),
               H("c06::encap_frag_lattice", bounds="pdu_len 0..=65535, buffer_len 0..=70000, every ContextFrag", cost=10),
               H("c11::first_fragment_lattice", bounds="pdu_len 0..=65535, buffer_len 0..=70000", unwind=8, cost=10),
               H("c11::continuation_lattice", bounds="pdu_len 0..=65535, buffer_len 0..=70000, every ContextFrag", cost=5),
               H("c12::sender_wiring", bounds="PDU <= 12, buffer <= 24; RecCrc records the call", unwind=8, cost=30),
               H("c02::e2e_first_then_end", tier="thorough", required=False, bounds="one formula: encap -> decap -> encap_frag -> decap, DefaultCrc, PDU <= 4, 3-byte label", unwind=12,
                 stubs=["read_gse_header -> first-or-end spec stub", STUB_WALKER], cost=900, timeout=2400, mem_gb=40),
               T("c02::twin_thirteen", cost=5)]
              + rx_members(RX_FIRST) + rx_members(RX_INTER) + rx_members(RX_END) + PREREQ_HDR,
    functions=ENCAP_FNS + DECAP_FNS,
    assumptions=RX_ASSUME + [ENC_STATE_INV],
    prereq_note=["C14 header codec", "C17 memory contract"],
    outside=RX_OUTSIDE + ["payload byte equality beyond the byte tier (length / offset arithmetic is covered for all sizes)"],
)

PROPS["C04"] = dict(
    claim="Bounded model checking of the joint label step on the compiled code: real encap and real decap in ONE formula from an arbitrary sender state, receiver memory and ghost "
          "'label of the preceding start/complete packet', constrained only by the joint invariant (sender remembers L => receiver remembers L; receiver memory is None or the preceding "
          "label), for complete packets and for first fragments, any label incl. explicit re-use: every delivered / accepted packet carries the label the sender passed (the preceding "
          "label for explicit re-use), explicit and broadcast labels are always delivered given storage, and the invariant is re-established; resets on both sides and configuration "
          "calls preserve it. Failed encap calls change nothing (C09 members); the receiver alone resolves a marker only to the preceding label and clears or renews its memory on every "
          "rejected start/complete packet (rx members, every receiver state); continuation packets leave the memory alone.",
    note="Trusted: Kani/CBMC/CaDiCaL; header stub (C14); RefMem (C17). One inductive step covers call sequences of any length; PDU <= 4 / buffer <= 20 bound the packets, not the history. encap_ext shares check_label_re_use with encap (C15 step_encap_ext).",
    harnesses=[H("c04::joint_step_complete", bounds="one formula encap -> decap, complete packets; PDU <= 4, buffer <= 20, any label / state", unwind=8, stubs=STUB_HDR + [STUB_WALKER], cost=40),
               H("c04::joint_step_first", bounds="one formula encap -> decap, first fragments; PDU <= 4, buffer <= 20", unwind=8, stubs=STUB_HDR + [STUB_WALKER], cost=40),
               H("c04::joint_step_reset_config", bounds="reset on both sides / disable / enable / enable-with-max(n)", unwind=8, cost=5),
               T("c04::twin_joint_complete", cost=20, stubs=STUB_HDR),
               H("c15::base_new", bounds="Encapsulator::new", unwind=8, cost=1),
               H("c15::step_encap", bounds="sender step, any label / outcome", unwind=8, cost=15),
               H("c15::step_encap_ext", bounds="sender step through encap_ext", unwind=10, cost=45, timeout=600),
               H("c15::step_config", bounds="configuration calls", unwind=8, cost=2),
               H("c09::encap_lattice", bounds=LATTICE + " (state unchanged on Err)", unwind=8, cost=10)]
              + rx_members(RX_COMPLETE) + rx_members(RX_FIRST) + rx_members(["end_match", "inter_match", "end_none", "inter_none"], whole_family=False) + PREREQ_HDR,
    functions=ENCAP_FNS + DECAP_FNS,
    assumptions=RX_ASSUME + [ENC_STATE_INV, "packets reported as produced are handed to the receiver in order; label memories are reset together (the property's premises)"],
    prereq_note=["C14", "C15 sender invariant", "C09 failure atomicity"],
    outside=RX_OUTSIDE,
)

C16_Q = ["complete_s1_stale_empty", "complete_s1_stale_full", "complete_s1_clean_empty", "complete_s2_stale_both", "complete_s2_stale_full",
         "first_s1_stale_empty", "first_s1_stale_full", "first_s1_clean_empty", "first_s2_stale_both_slot0", "first_s2_stale_both_slot1", "first_s2_stale_full_slot1",
         "simple_complete_s1_stale_empty", "simple_complete_s1_stale_full", "simple_complete_s2_stale_both"]

PROPS["C16"] = dict(
    claim="Bounded model checking of recovery on the compiled code: from EVERY state of heap shapes that over-approximate what any history can leave behind (stale contexts on every slot, "
          "with or without extensions, any remembered label, free list empty or full), after reset_last_label and one provision_storage — accepted, or refused with StorageOverflow "
          "handing the buffer back — a valid complete packet with an explicit label is delivered with the right bytes and metadata, and a valid first fragment on ANY fragment id is "
          "accepted and leaves exactly the fresh context (replacing a stale one); from that context the intermediate / end lemmas, which hold in every state, deliver the PDU.",
    note="Trusted: Kani/CBMC/CaDiCaL; header stub (C14); 'after any sequence of decap calls' rests on C05 (every call returns), C08 (no call loses a buffer) and the state invariants; RefMem (C17) plus three members with the bundled memory in the loop.",
    harnesses=[H(f"c16::{n}", bounds="arbitrary state of the named shape; reset + provision(6-byte buffer) + valid packet (payload <= 6, explicit label) + arbitrary tail", unwind=10,
                 stubs=STUB_HDR + [STUB_WALKER] + (STUBS_DECAP[1:] if n.startswith("simple") else []), cost=30, mem_gb=4, covers="any", family=n.split("_")[0]) for n in C16_Q]
              + [T("c16::twin_recover", cost=5, stubs=STUB_HDR)]
              + rx_members(["inter_match", "end_match", "inter_match_full", "end_match_full"], whole_family=False) + PREREQ_HDR + c17_simple(False),
    functions=DECAP_FNS,
    assumptions=RX_ASSUME,
    prereq_note=["C05 totality", "C08 conservation", "C17 memory contract"],
    outside=RX_OUTSIDE,
)


# ---------------------------------------------------------------------------------------------
# Members added after the first seeded-change round (DESIGN 9.6): all-size coverage of payload
# positions on both sides, the big-extension error path, CRC wiring through encap_ext, bursts.
# ---------------------------------------------------------------------------------------------
POS_TX = [H("c06::encap_payload_position_lattice", bounds=LATTICE + "; PDU zero except ONE symbolic byte at a symbolic position: it lands at header + position, nothing else is disturbed", unwind=8, cost=15),
          H("c06::encap_frag_payload_position_lattice", bounds="pdu_len 0..=65535, buffer 0..=70000, every context; one symbolic PDU byte at a symbolic position", cost=10)]
RXL_BOUNDS = "frame and storage lengths 0..=5000 and GSE length up to 4095 all symbolic; contents zero except one symbolic payload byte (and one stored-prefix byte) at symbolic positions; RefMem, 1 slot"


def rxl(names):
    return [H(f"rxl::{n}", bounds=RXL_BOUNDS, unwind=8, stubs=STUB_HDR + ([STUB_WALKER] if n in ("complete_lattice", "first_lattice") else []), cost=40, mem_gb=4, timeout=600) for n in names]


BIGEXT = H("c09::encap_ext_big_mandatory_lattice", bounds=LATTICE + "; one mandatory extension with 0..=5000 data bytes (the extensions alone may exceed a GSE packet)", unwind=8, cost=30)

PROPS["C01"]["harnesses"] += [POS_TX[0]] + rxl(["complete_lattice"])
PROPS["C02"]["harnesses"] += POS_TX + rxl(["first_lattice", "intermediate_lattice", "end_lattice"])
PROPS["C03"]["harnesses"] += rxl(["intermediate_lattice", "end_lattice", "first_lattice"]) + [
    H("c03b::burst_up_to_32_bits_detected", tier="thorough", bounds="every message of 4 + 3 + 8 bytes with its trailer; every non-zero 32-bit pattern at every bit offset of the 19 protected bytes", unwind=10, cost=200, timeout=1800, mem_gb=8)]
PROPS["C06"]["harnesses"] += POS_TX + [BIGEXT]
PROPS["C08"]["harnesses"] += rxl(["complete_lattice", "first_lattice", "intermediate_lattice", "end_lattice"])
PROPS["C09"]["harnesses"] += [BIGEXT]
PROPS["C04"]["harnesses"] += [BIGEXT]
PROPS["C15"]["harnesses"] += [BIGEXT]
PROPS["C10"]["harnesses"] += rxl(["complete_lattice", "first_lattice", "intermediate_lattice", "end_lattice"])
PROPS["C12"]["harnesses"] += [H("c12::sender_wiring_ext", bounds="encap_ext with one optional extension; PDU <= 8, buffer <= 32; RecCrc records the call", unwind=10, cost=60, timeout=900)]
PROPS["C13"]["harnesses"] += [BIGEXT]
for _p in ("C01", "C02", "C03", "C08", "C10"):
    PROPS[_p]["outside"] = [o for o in PROPS[_p]["outside"] if not o.startswith(("byte strings longer", "storage other than 6", "PDU byte equality", "payload byte equality"))] + [
        "arbitrary CONTENTS beyond the byte tier: the all-size members carry one symbolic byte in an otherwise zero payload (position and length arithmetic for every size; not every content)",
        "more than 2 slots; packets with extension headers are covered by the C13 members only"]
PROPS["C15"]["harnesses"] = [h for h in PROPS["C15"]["harnesses"]]

PROPS["C13"]["harnesses"] += [H("c13::rx_first_bc_o2_lean", bounds="first fragment, broadcast label, one optional 2-byte extension (symbolic id / data), payload 0..=2, any total length > payload, arbitrary tail up to 16 bytes; RefMem 1 slot",
                                unwind=6, unwindset={"iterate_over_extension_header": 3, "header_extension9Extension": 3, "memcmp": 8}, stubs=["read_gse_header -> first/broadcast spec stub (C14 lemma)"], cost=300, timeout=1500, mem_gb=16)]

PROPS["C13"]["harnesses"] += [H("c13::bundled_managers", bounds="all 65536 ids, both bundled managers", cost=1)]


# MIR -> SMT member (vp/mirsmt.py): the slot-index arithmetic for every slot count up to 65536 --
# memories with >= 256 slots are beyond what Kani can hold (a 256-element array of contexts runs
# CBMC out of 24 GB for a single call)
SLOTIDX = H("smt::slot_index", required=False, kind="smt", smt="slotidx", replay_module="c17",
            bounds="slot count 1..=65536 (usize, 64-bit wrapping arithmetic), every u8 fragment id; the loop-free prefix of "
                   "SimpleGseMemory::{new, new_frag, take_frag, save_frag} up to the slot access, encoded from the nightly MIR dump of /repo (helpers of the memory module inlined path by path); queries: no panic, same slot in all three operations, different ids below the slot count never share a slot; "
                   "z3 4.8.12 and cvc5 1.0 must both answer unsat",
            stubs=["vec::from_elem(x, n).into_boxed_slice() has length n (std model of the MIR->SMT member)",
                   "integer fields of SimpleGseMemory keep the value `new` stored (checked syntactically on the MIR: no later store)"],
            cost=20, timeout=600, mem_gb=16)
PROPS["C17"]["harnesses"] += [SLOTIDX]
PROPS["C05"]["harnesses"] += [SLOTIDX]
PROPS["C07"]["harnesses"] += [SLOTIDX]

# storage buffers beyond 65535 bytes: the region where the reassembly context's 16-bit byte
# counter and the 16-bit total-length comparison could wrap (defect D16)
def rxl_big(names):
    return [H(f"rxl::{n}", bounds="as the lattice of the same name, with storage buffers 0..=70000 bytes and any offset 0..=65535 already stored", unwind=8, stubs=STUB_HDR, cost=60, mem_gb=6, timeout=900) for n in names]


for _p in ("C03", "C05", "C08"):
    PROPS[_p]["harnesses"] += rxl_big(["intermediate_lattice_big_storage", "end_lattice_big_storage"])

PROPS["C10"]["harnesses"] += [H("c10::padding_lattice", bounds="padding of 2..=70000 bytes: zero first nibble, arbitrary low nibble, one symbolic byte at a symbolic position; any label memory; RefMem 1 slot occupied", unwind=8, stubs=STUB_HDR, cost=20, timeout=600)]
PROPS["C05"]["harnesses"] += [H("c10::padding_lattice", bounds="padding of 2..=70000 bytes", unwind=8, stubs=STUB_HDR, cost=20, timeout=600)]

def rxl_big2(names):
    return [H(f"rxl::{n}", bounds="as the lattice of the same name, with frames and storage buffers up to 70000 bytes", unwind=8, stubs=STUB_HDR + [STUB_WALKER], cost=60, mem_gb=6, timeout=900) for n in names]


for _p in ("C01", "C10"):
    PROPS[_p]["harnesses"] += rxl_big2(["complete_lattice_big"])
for _p in ("C02", "C10"):
    PROPS[_p]["harnesses"] += rxl_big2(["first_lattice_big"])
PROPS["C10"]["harnesses"] += rxl_big(["intermediate_lattice_big_storage", "end_lattice_big_storage"])
PROPS["C05"]["harnesses"] += rxl_big2(["complete_lattice_big", "first_lattice_big"])
for _p in ("C01", "C02", "C03", "C05", "C08", "C10"):
    PROPS[_p]["outside"] = [o.replace("storage buffers larger than 65535 bytes", "storage buffers larger than 70000 bytes") for o in PROPS[_p].get("outside", [])] + [
        "frames and storage buffers longer than 70000 bytes (the *_big lattices cover lengths up to 70000, i.e. across the 16-bit boundary)"]
# the receiver's walker on chains longer than 4 (hook verif_walk_extensions).  Measured: a symbolic chain length
# runs CBMC out of 12 GB; fixed lengths 5 / 9 / 10 need 10-15 GB and 9-14 minutes each (the Vec<Extension> growth
# inside the walker).  Optional; thorough only, except the cheapest one (unknown mandatory id in ninth place).
WALKER_B = "the receiver's walker (hook verif_walk_extensions) on a chain of a fixed length: ids, data bytes and final protocol type symbolic; "
PROPS["C13"]["harnesses"] += [
    H("c13::walker_chain_5_mixed", tier="thorough", required=False, bounds=WALKER_B + "5 optional extensions, 2nd and 4th with two data bytes", unwind=12, cost=300, timeout=1800, timeout_t=2400, mem_gb=24),
    H("c13::walker_chain_9_mand_last", tier="thorough", required=False, bounds=WALKER_B + "8 optional extensions (2nd, 6th with data) then the known non-final mandatory 0x0011", unwind=12, cost=400, timeout=1800, timeout_t=3000, mem_gb=32),
    H("c13::walker_chain_10_optional", tier="thorough", required=False, bounds=WALKER_B + "10 optional extensions, first and last with two data bytes", unwind=12, cost=400, timeout=1800, timeout_t=3000, mem_gb=32),
    # quick, but optional: ~9 min / 10 GB next to the 6-minute lean member; a timeout must not fail the check
    H("c13::walker_chain_9_unknown_last", tier="quick", required=False, bounds="8 data-less optional extensions then an unknown mandatory id (any of the 252 unknown ones)", unwind=12, cost=600, timeout=1500, timeout_t=2400, mem_gb=16),
    H("c13::walker_chain_6_unknown_fifth", tier="thorough", required=False, bounds="6 extensions, the fifth an unknown mandatory id", unwind=12, cost=200, timeout=1800, timeout_t=2400, mem_gb=16)]

# outside-claim statements after the bound extensions of sections 9.9 / 9.10
PROPS["C13"]["outside"] = ["chains longer than 4 entries at packet level (encap_ext / decap); chains of 5, 6, 9 and 10 entries are covered for the receiver's walker only, by optional members (c13::walker_chain_*); chains longer than 10",
                           "mandatory data longer than 8 bytes (except the single big mandatory extension of c09::encap_ext_big_mandatory_lattice); PDUs longer than 5..6 bytes on this path"] + PROPS["C13"]["outside"][1:]
PROPS["C17"]["outside"] = ["memories with more than 3 slots, except their slot-index arithmetic (smt::slot_index: 1..=65536 slots, optional member)"] + PROPS["C17"]["outside"][1:]
PROPS["C07"]["outside"] = PROPS["C07"]["outside"] + ["more than 2-3 slots, except the slot-index arithmetic (smt::slot_index: ids below the slot count never share a slot, 1..=65536 slots)"]

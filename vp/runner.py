"""Runner: builds the harness crate against /repo's current tree, runs Kani harnesses in
parallel under memory / time caps, parses CBMC's per-check results, replays
counterexamples natively, matches known findings, writes evidence."""
import json
import os
import re
import resource
import shutil
import signal
import subprocess
import sys
import threading
import time

ROOT = os.path.dirname(os.path.dirname(os.path.abspath(__file__)))
HARNESS = os.path.join(ROOT, "harness")
BUILD = os.path.join(ROOT, "build")
REPLAYS = os.path.join(ROOT, "replays")
EVIDENCE = os.path.join(ROOT, "evidence")
LOGS = os.path.join(ROOT, "logs")
REPO = "/repo"

TOTAL_MEM_GB = 52  # budget for concurrently running CBMC processes
MAX_PAR = 14


def env_base():
    e = dict(os.environ)
    e["CARGO_NET_OFFLINE"] = "true"
    e.pop("RUSTFLAGS", None)
    e.pop("RUSTUP_TOOLCHAIN", None)
    e["CARGO_TERM_COLOR"] = "never"
    return e


# harness modules that live behind another module's cargo feature
MODULE_FEATURE = {"rxl": "rx", "c03b": "c03", "smt": "c17"}


def feature_list(prop, harnesses, extra=(), tier="quick"):
    feats = {prop.lower(), "twins"}
    if tier == "thorough":
        feats.add("deep")
    for h in harnesses:
        feats.add(MODULE_FEATURE.get(h["module"], h["module"]))
    feats.update(extra)
    return ",".join(sorted(feats))


_TIER = {"tier": "quick"}


def target_dir(prop):
    return os.path.join(BUILD, prop + ("-deep" if _TIER["tier"] == "thorough" else ""))


def build(prop, feats, log):
    """Compile the harness crate (and /repo with hooks on) for Kani.  Returns (ok, seconds, tail)."""
    os.makedirs(target_dir(prop), exist_ok=True)
    cmd = ["cargo", "kani", "--only-codegen", "-Z", "stubbing", "--features", feats,
           "--target-dir", target_dir(prop)]
    t0 = time.time()
    with open(log, "w") as f:
        p = subprocess.run(cmd, cwd=HARNESS, env=env_base(), stdout=f, stderr=subprocess.STDOUT)
    dt = time.time() - t0
    tail = ""
    if p.returncode != 0:
        with open(log) as f:
            tail = "".join(f.readlines()[-40:])
    return p.returncode == 0, dt, tail


class Job:
    def __init__(self, h, prop, feats, tier):
        self.h = h
        self.prop = prop
        self.feats = feats
        self.tier = tier
        self.log = os.path.join(LOGS, prop, h["name"].replace("::", "__") + ".log")
        self.proc = None
        self.t0 = None
        self.wall = None
        self.maxrss_kb = 0
        self.timed_out = False
        self.rc = None

    @property
    def mem_gb(self):
        return self.h.get("mem_gb", 6)

    @property
    def timeout(self):
        if self.tier == "thorough":
            return self.h.get("timeout_t", max(1800, 3 * self.h.get("timeout", 300)))
        return self.h.get("timeout", 300)


def _limit(mem_gb):
    def f():
        os.setsid()
        lim = int(mem_gb * (1 << 30))
        resource.setrlimit(resource.RLIMIT_AS, (lim, lim))
    return f


def smt_replay_json(job):
    return job.log + ".replays.json"


def job_cmd(job):
    """Kani harness, or (kind="smt") the MIR->SMT encoder, which prints a Kani-shaped log."""
    if job.h.get("kind") == "smt":
        return [sys.executable, os.path.join(ROOT, "vp", "mirsmt.py"), job.h["smt"],
                "--replay-json", smt_replay_json(job),
                "--workdir", os.path.join(BUILD, "mirsmt-" + job.prop)]
    return kani_cmd(job)


def kani_cmd(job, extra=()):
    cmd = ["cargo", "kani", "-Z", "stubbing", "--features", job.feats,
           "--target-dir", target_dir(job.prop),
           "--harness", job.h["name"], "--exact"]
    cmd += list(extra)
    cbmc_args = list(job.h.get("cbmc_args") or [])
    us = job.h.get("unwindset")
    if us:
        ids = resolve_loops(job, us)
        if ids:
            cbmc_args += ["--unwindset", ",".join(f"{i}:{b}" for i, b in ids)]
    if cbmc_args:
        cmd += ["-Z", "unstable-options", "--cbmc-args"] + cbmc_args
    return cmd


_LOOP_CACHE = {}


def resolve_loops(job, patterns):
    """Per-loop unwinding bounds by function-name substring: look the loop ids up in the harness's
    goto binary (they are mangled names, different in every build)."""
    import glob
    fn = job.h["name"].split("::")[-1]
    pat = os.path.join(target_dir(job.prop), "kani", "*", "debug", "build", "gse_verif", "*", "out", f"*{len(fn)}{fn}.out")
    files = sorted(glob.glob(pat), key=os.path.getmtime)
    if not files:
        return []
    f = files[-1]
    if f not in _LOOP_CACHE:
        p = subprocess.run(["goto-instrument", "--show-loops", f], stdout=subprocess.PIPE, stderr=subprocess.DEVNULL, text=True)
        _LOOP_CACHE[f] = re.findall(r"^Loop (\S+):", p.stdout, re.M)
    out = []
    for lid in _LOOP_CACHE[f]:
        for sub, bound in patterns.items():
            if sub in lid:
                out.append((lid, bound))
                break
    return out


def run_jobs(jobs, progress=True):
    """Memory-aware scheduler: start a job when the sum of memory caps stays under budget."""
    pending = sorted(jobs, key=lambda j: -j.h.get("cost", 10))
    running = []
    done = []
    while pending or running:
        # start what fits
        started = True
        while started and pending:
            started = False
            used = sum(j.mem_gb for j in running)
            for j in list(pending):
                if len(running) < MAX_PAR and used + j.mem_gb <= TOTAL_MEM_GB:
                    os.makedirs(os.path.dirname(j.log), exist_ok=True)
                    f = open(j.log, "w")
                    j.t0 = time.time()
                    j.proc = subprocess.Popen(job_cmd(j), cwd=HARNESS, env=env_base(), stdout=f,
                                              stderr=subprocess.STDOUT, preexec_fn=_limit(j.mem_gb))
                    f.close()
                    pending.remove(j)
                    running.append(j)
                    started = True
                    break
        time.sleep(0.2)
        for j in list(running):
            try:
                pid, status, ru = os.wait4(j.proc.pid, os.WNOHANG)
            except ChildProcessError:
                pid, status, ru = j.proc.pid, 0, None
            if pid != 0:
                j.wall = time.time() - j.t0
                j.rc = os.waitstatus_to_exitcode(status) if ru is not None else -1
                j.maxrss_kb = ru.ru_maxrss if ru is not None else 0
                running.remove(j)
                done.append(j)
                if progress:
                    print(f"  [{j.h['name']}] finished rc={j.rc} {j.wall:.1f}s rss={j.maxrss_kb//1024}MB",
                          file=sys.stderr, flush=True)
            elif time.time() - j.t0 > j.timeout:
                j.timed_out = True
                try:
                    os.killpg(j.proc.pid, signal.SIGKILL)
                except ProcessLookupError:
                    pass
    return done


CHECK_RE = re.compile(r"^Check (\d+): (.+?)\s*$")


def parse_log(path):
    """Parse Kani's regular output for one harness."""
    res = {"checks": [], "verification": None, "time_s": None, "n_checks": 0, "covers": [],
           "steps": None, "error": None, "matched": True, "vccs": None}
    try:
        text = open(path, errors="replace").read()
    except FileNotFoundError:
        res["error"] = "no log"
        return res
    if "No harnesses matched" in text or "no harnesses matched" in text.lower():
        res["matched"] = False
    lines = text.split("\n")
    i = 0
    cur = None
    for ln in lines:
        m = CHECK_RE.match(ln)
        if m:
            cur = {"n": int(m.group(1)), "id": m.group(2), "status": None, "desc": "", "loc": ""}
            res["checks"].append(cur)
            continue
        s = ln.strip()
        if cur is not None:
            if s.startswith("- Status:"):
                cur["status"] = s.split(":", 1)[1].strip()
            elif s.startswith("- Description:"):
                d = s.split(":", 1)[1].strip()
                cur["desc"] = d.strip('"')
            elif s.startswith("- Location:"):
                cur["loc"] = s.split(":", 1)[1].strip()
        if s.startswith("VERIFICATION:-"):
            res["verification"] = s.split(":-", 1)[1].strip()
            cur = None
        elif s.startswith("Verification Time:"):
            try:
                res["time_s"] = float(s.split(":", 1)[1].strip().rstrip("s"))
            except ValueError:
                pass
        elif s.startswith("size of program expression:"):
            m2 = re.search(r"(\d+) steps", s)
            if m2:
                res["steps"] = int(m2.group(1))
        elif s.startswith("Generated ") and "VCC" in s:
            m2 = re.search(r"Generated (\d+) VCC\(s\), (\d+) remaining", s)
            if m2:
                res["vccs"] = [int(m2.group(1)), int(m2.group(2))]
        elif "Status: ERROR" in s or s.startswith("CBMC failed") or "CBMC appears to have run out of memory" in s \
                or "std::bad_alloc" in s or "Out of memory" in s or "SAT checker ran out of memory" in s:
            res["error"] = s[:200]
        elif s.startswith("error:") and res["error"] is None and "exited with status" not in s:
            res["error"] = s[:200]
    res["n_checks"] = len([c for c in res["checks"] if ".cover." not in c["id"]])
    res["covers"] = [c for c in res["checks"] if ".cover." in c["id"]]
    return res


LABEL_RE = re.compile(r"^(C\d\d|TWIN|MODEL)\.[A-Za-z0-9_.\-]+")


def fn_of_loc(loc):
    m = re.search(r" in function (.*)$", loc)
    return m.group(1).strip() if m else "?"


def file_of_loc(loc):
    return loc.split(":", 1)[0] if loc else "?"


def norm_desc(desc):
    d = desc
    d = re.sub(r"\d+", "N", d)
    d = d.replace('"', "").strip()
    return d[:80]


def norm_fn(fn):
    """Strip generic instantiations (`::<...>` and `<... as ...>` arguments) by bracket matching so
    that the label is stable across instantiations."""
    m = re.match(r"^<(.+?) as .+>::([A-Za-z0-9_]+)$", fn)
    if m:
        return norm_fn(m.group(1)) + "::" + m.group(2)
    out = []
    depth = 0
    i = 0
    while i < len(fn):
        c = fn[i]
        if c == "<":
            depth += 1
        elif c == ">":
            depth = max(0, depth - 1)
        elif depth == 0:
            out.append(c)
        i += 1
    f = "".join(out)
    f = re.sub(r"::(::)+", "::", f)
    f = re.sub(r"\{closure#\d+\}", "{closure}", f)
    return f.strip(":")


def label_of(check):
    """Stable identity of a failed check (no line numbers)."""
    d = check["desc"].strip('"')
    m = LABEL_RE.match(d)
    if m:
        return m.group(0)
    fn = norm_fn(fn_of_loc(check["loc"]))
    where = "panic" if ("repo/src" in check["loc"] or fn.startswith("dvb_gse_rust")) else "aux"
    return f"{where}:{fn}:{norm_desc(d)}"


def is_unwind_failure(check):
    return "unwinding assertion" in check["desc"] or ".unwind." in check["id"]


def classify(job, parsed):
    """-> dict(status=pass|fail|undecided, reason, failed=[checks], covers_unsat=[...])"""
    h = job.h
    out = {"status": None, "reason": "", "failed": [], "covers_unsat": [], "unwind_failed": False}
    if job.timed_out:
        out.update(status="undecided", reason=f"timeout after {job.timeout}s")
        return out
    if not parsed["matched"]:
        out.update(status="undecided", reason="harness not found in crate")
        return out
    failed = [c for c in parsed["checks"] if c["status"] == "FAILURE" and ".cover." not in c["id"]]
    unwind = [c for c in failed if is_unwind_failure(c)]
    real = [c for c in failed if not is_unwind_failure(c)]
    out["failed"] = real
    out["unwind_failed"] = bool(unwind)
    covers_unsat = [c for c in parsed["covers"] if c["status"] not in ("SATISFIED",)]
    out["covers_unsat"] = covers_unsat
    ver = parsed["verification"]
    if ver is None:
        out.update(status="undecided", reason=parsed["error"] or f"no verdict (rc={job.rc}; out of memory or crash)")
        return out
    if real:
        out.update(status="fail", reason=f"{len(real)} failed check(s)")
        return out
    if unwind:
        out.update(status="undecided", reason="unwinding assertion failed (bound too small for this code)")
        return out
    if ver.startswith("FAILED"):
        out.update(status="undecided", reason=parsed["error"] or "FAILED without a failed property")
        return out
    undet = [c for c in parsed["checks"] if c["status"] == "UNDETERMINED"]
    if undet:
        out.update(status="undecided", reason="undetermined checks")
        return out
    if covers_unsat and not h.get("twin"):
        sat = [c for c in parsed["covers"] if c["status"] == "SATISFIED"]
        if h.get("covers") == "any" and sat:
            # outcome classes are shared by a family of shape instances: each instance must
            # reach at least one, and the family as a whole must reach all (checked by the driver)
            pass
        else:
            names = ",".join(c["desc"] for c in covers_unsat)
            out.update(status="undecided", reason=f"vacuity: cover(s) not satisfied: {names}")
            return out
    out.update(status="pass")
    return out


# ------------------------------------------------------------------------------------------
# known findings
# ------------------------------------------------------------------------------------------

def load_known():
    p = os.path.join(ROOT, "known_findings.json")
    if not os.path.exists(p):
        return []
    return json.load(open(p)).get("findings", [])


def match_known(known, prop, harness, label):
    for k in known:
        if k.get("status", "open") != "open":
            continue
        if k["property"] != prop:
            continue
        if not re.fullmatch(k["harness"], harness):
            continue
        if k["check"] != label:
            continue
        return k
    return None


# ------------------------------------------------------------------------------------------
# replay
# ------------------------------------------------------------------------------------------

PLAYBACK_RE = re.compile(r"Concrete playback unit test for `([^`]+)`:\n```\n(.*?)\n```", re.S)


def gen_replays(job):
    """Re-run the harness with concrete playback; returns list of (check_desc, test_name, code)."""
    if job.h.get("kind") == "smt":
        # the encoder already turned each satisfying assignment into a native test
        try:
            return [(r["desc"], r["name"], r["code"]) for r in json.load(open(smt_replay_json(job)))]
        except (OSError, ValueError):
            return []
    log = job.log + ".playback"
    cmd = kani_cmd(job, ["-Z", "concrete-playback", "--concrete-playback=print"])
    with open(log, "w") as f:
        try:
            # playback mode drops formula slicing: it needs several times the memory and time of the
            # verification run (measured: 57 s / 1.6 GB -> 346 s / 17 GB); replays run one at a time
            subprocess.run(cmd, cwd=HARNESS, env=env_base(), stdout=f, stderr=subprocess.STDOUT,
                           preexec_fn=_limit(max(40, job.mem_gb + 4)), timeout=max(2400, job.timeout * 3))
        except subprocess.TimeoutExpired:
            return []
    text = open(log, errors="replace").read()
    out = []
    for m in PLAYBACK_RE.finditer(text):
        code = m.group(2)
        dm = re.search(r"/// Check for `[^`]*`: \"?\"?(.*?)\"?\"?\s*$", code, re.M)
        desc = dm.group(1).strip('"') if dm else ""
        nm = re.search(r"fn (kani_concrete_playback_\w+)\(", code)
        out.append((desc, nm.group(1) if nm else "", code))
    return out


def native_replay(path, feats, release=False, test_filter="kani_concrete_playback"):
    """Run a saved replay file natively against the real crate.  Returns (reproduced, tail)."""
    e = env_base()
    e["VERIF_REPLAY_FILE"] = os.path.abspath(path)
    e["CARGO_TARGET_DIR"] = os.path.join(BUILD, "playback")
    e["RUST_BACKTRACE"] = "0"
    cmd = ["cargo", "kani", "playback", "-Z", "concrete-playback", "--features", feats + ",replay"]
    if release:
        cmd += ["--release"]
    cmd += ["--", test_filter]
    p = subprocess.run(cmd, cwd=HARNESS, env=e, stdout=subprocess.PIPE, stderr=subprocess.STDOUT, text=True)
    out = p.stdout
    m = re.search(r"test result: (\w+)\. (\d+) passed; (\d+) failed", out)
    if not m:
        return None, out[-3000:]
    failed = int(m.group(3))
    return failed > 0, out[-3000:]


def save_replay(prop, harness, idx, module, desc, code):
    d = os.path.join(REPLAYS, prop)
    os.makedirs(d, exist_ok=True)
    safe = re.sub(r"[^A-Za-z0-9_.]+", "_", desc)[:60] or "check"
    path = os.path.join(d, f"{harness.replace('::', '__')}__{idx}_{safe}.rs")
    with open(path, "w") as f:
        f.write(f"// property: {prop}\n// harness: {harness}\n// check: {desc}\n")
        f.write(f"use crate::{module}::*;\n")
        f.write(code + "\n")
    return path

#!/usr/bin/env python3
"""Regenerate MANIFEST.json from the registry (run after editing vp/registry.py)."""
import json, os, subprocess, sys
sys.path.insert(0, os.path.dirname(os.path.abspath(__file__)))
import registry as REG
root = os.path.dirname(os.path.dirname(os.path.abspath(__file__)))
props = [json.loads(l) for l in open(os.path.join(root, 'properties.jsonl'))]
hook_commits = REG.HOOK_COMMITS if hasattr(REG, 'HOOK_COMMITS') else []
checks = []
na = []
for p in props:
    pid = p['id']
    P = REG.PROPS.get(pid)
    if P is None or P.get('disabled'):
        na.append({"property_id": pid, "reason": (P or {}).get('na_reason', REG.NA.get(pid, "check not built yet; see DESIGN.md section 5"))})
        continue
    checks.append({
        "property_id": pid,
        "quick_cmd": f"./check {pid} --tier quick",
        "thorough_cmd": f"./check {pid} --tier thorough",
        "evidence_file": f"/verif/evidence/{pid}.json",
        "replay_cmd_template": f"./check {pid} --replay {{path}}",
        "engine": "kani",
        "level_claimed": {
            "category": P.get("level", "model_checking"),
            "text": P["claim"],
            "design_ref": f"DESIGN.md section 5, {pid}",
        },
        "level_note": P["note"],
        "technique": P.get("technique", "bounded model checking of the compiled crate (Kani -> CBMC -> SAT) over symbolic inputs/states"),
    })
m = {
    "version": 1,
    "setup_cmd": "./setup.sh",
    "hooks": {
        "guard": "cargo feature `verif-hooks` of dvb_gse_rust (off by default)",
        "enable": "the harness crate /verif/harness depends on /repo by path with features = [\"verif-hooks\"]; cargo kani builds it",
        "baseline_off_cmd": "cd /repo && cargo test --workspace --no-fail-fast --offline",
        "source_commits": hook_commits,
        "add_only": True,
    },
    "engines": [{
        "name": "kani",
        "path": "/verif/harness",
        "serves_properties": [c["property_id"] for c in checks],
        "kind_free_text": "Kani 0.68.0 proof harnesses (out-of-tree crate, path dependency on /repo) decided by CBMC 6.11.0 + CaDiCaL; driver /verif/check + /verif/vp/*.py",
    }],
    "checks": checks,
    "not_applicable": na,
    "notes": "Every check rebuilds the harness crate against /repo's working tree. Exit codes: 0 held, 1 replayed violation, 2 counterexample not reproduced natively, 3 required harness undecided. known_findings.json lists recorded defects.",
}
json.dump(m, open(os.path.join(root, 'MANIFEST.json'), 'w'), indent=1)
print("wrote MANIFEST.json:", len(checks), "checks;", len(na), "not_applicable")

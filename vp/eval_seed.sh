#!/bin/sh
# usage: eval_seed.sh <name> <dir with patch.diff demo.rs meta.txt> <props,comma> 
# 1. confirms in a scratch worktree: suite green with the change; demo fails with / passes without
# 2. runs the named checks against the change (isolated selftest)
# 3. stores /verif/seeded/<name>/{patch.diff,demo.rs,meta.json}
name=$1; src=$2; props=$(echo $3 | tr ',' ' ')
w=/tmp/seedchk_$name
git -C /repo worktree add --detach $w HEAD -q
cp $src/demo.rs $w/tests/demo.rs
( cd $w && cargo test --offline --test demo > /tmp/seedchk_$name.without.log 2>&1 ); without=$?
git -C $w apply $src/patch.diff || { echo "PATCH DOES NOT APPLY"; }
( cd $w && cargo test --offline --test demo > /tmp/seedchk_$name.with.log 2>&1 ); with=$?
rm $w/tests/demo.rs
( cd $w && cargo test --offline > /tmp/seedchk_$name.suite.log 2>&1 ); suite=$?
npass=$(grep -E "^test result: ok" /tmp/seedchk_$name.suite.log | sed 's/.*ok. \([0-9]*\) passed.*/\1/' | paste -sd+ | bc)
git -C /repo worktree remove --force $w; git -C /repo worktree prune
echo "SEED $name: demo_without_change_exit=$without demo_with_change_exit=$with suite_exit=$suite suite_passed=$npass"
python3 /verif/vp/selftest.py --patch $src/patch.diff $props > /tmp/seedchk_$name.selftest.log 2>&1
cat /tmp/seedchk_$name.selftest.log
mkdir -p /verif/seeded/$name
cp $src/patch.diff $src/demo.rs /verif/seeded/$name/
[ -f $src/meta.txt ] && cp $src/meta.txt /verif/seeded/$name/agent_notes.txt

#!/usr/bin/env python3
"""MIR -> SMT-LIB2 encoder for the slot-index arithmetic of SimpleGseMemory.

Calls to other functions of the memory module (a `slot()` helper, say) are inlined: every path of
the loop-free helper body is explored, the result is an ite over the path conditions and the
helper's asserts become obligations under them.

Kani cannot reach memories with >= 256 context slots (a 256-element array of ~100-byte
`Option<MemoryContext>` runs CBMC out of 24 GB even for one call), yet the only arithmetic that
depends on the slot count is the loop-free prefix of new_frag / take_frag / save_frag that turns
a fragment id into a slot index.  This member encodes exactly that prefix, from the nightly
compiler's MIR dump of /repo's current tree (regenerated on every run), into bit-vector SMT
(usize = 64 bits, wrapping; overflow / remainder-by-zero / bounds asserts become obligations)
and asks z3 (cross-checked with cvc5) for every slot count 1..=65536 and every u8 id:

  no_panic     every MIR `assert` on the way to the slot access holds (remainder by zero,
               index < frags.len())
  consistent   the three operations compute the same slot for the same id
  injective    two different ids below the slot count never share a slot (so with >= 256 slots
               no two ids do); the documented rule is frag_id % max_frag_id

`sat` answers are turned into a native replay (harness crate, `c17::slot_replay`).
Output mimics Kani's per-check log so the common driver parses it.

Model of std used (stated in the evidence): `vec::from_elem(x, n).into_boxed_slice()` has length n;
integer struct fields of `self` keep the value `new` gave them (checked: no MIR statement in the
impl assigns them).
"""
import json
import os
import re
import subprocess
import sys
import time

def _repo_path():
    """The crate under test is whatever the harness crate depends on (so that an isolated copy of
    /verif pointed at a scratch worktree encodes that worktree)."""
    ct = os.path.join(os.path.dirname(os.path.dirname(os.path.abspath(__file__))), "harness", "Cargo.toml")
    try:
        m = re.search(r'dvb_gse_rust\s*=\s*\{[^}]*path\s*=\s*"([^"]+)"', open(ct).read())
        if m:
            return m.group(1)
    except OSError:
        pass
    return "/repo"


REPO = _repo_path()
W = {"usize": 64, "u64": 64, "u32": 32, "u16": 16, "u8": 8, "bool": 1, "isize": 64, "i32": 32, "i64": 64}
N_MAX = 1 << 16


class Unsupported(Exception):
    pass


def dump_mir(workdir):
    """MIR of /repo's working tree (scratch copy: cargo wants to write target/ and we touch lib.rs)."""
    src = os.path.join(workdir, "src_copy")
    subprocess.run(["rm", "-rf", src], check=True)
    subprocess.run(["rsync", "-a", "--exclude", "target", "--exclude", ".git", REPO + "/", src + "/"], check=True)
    env = dict(os.environ)
    env["CARGO_NET_OFFLINE"] = "true"
    env["CARGO_TARGET_DIR"] = os.path.join(workdir, "target")
    env.pop("RUSTFLAGS", None)
    env.pop("RUSTUP_TOOLCHAIN", None)
    p = subprocess.run(["cargo", "+nightly", "rustc", "--offline", "--lib", "--", "-Zunpretty=mir",
                        "-C", "debug-assertions=off", "-C", "overflow-checks=on"],
                       cwd=src, env=env, stdout=subprocess.PIPE, stderr=subprocess.PIPE, text=True)
    subprocess.run(["rm", "-rf", src])
    if p.returncode != 0 or "fn " not in p.stdout:
        raise Unsupported("MIR dump failed: " + p.stderr[-400:])
    return p.stdout


def split_functions(mir):
    fns = {}
    cur = None
    for ln in mir.split("\n"):
        if ln.startswith("fn "):
            cur = [ln]
            fns[ln] = cur
        elif cur is not None:
            cur.append(ln)
            if ln == "}":
                cur = None
    return fns


def find_fn(fns, impl_ty_pattern, name):
    out = []
    for sig, body in fns.items():
        m = re.match(r"^fn (.*?)::" + re.escape(name) + r"\((.*)$", sig)
        if m and re.search(impl_ty_pattern, sig):
            out.append((sig, body))
    return out


class Fn:
    def __init__(self, sig, lines):
        self.sig = sig
        self.lines = lines
        self.types = {}
        self.debug = {}
        self.blocks = {}
        m = re.match(r"^fn .*?\((.*)\) -> (.*) \{$", sig)
        args = m.group(1) if m else ""
        for am in re.finditer(r"(_\d+): ([^,]+(?:<[^>]*>)?[^,]*)", args):
            self.types[am.group(1)] = am.group(2).strip()
        cur = None
        for ln in lines[1:]:
            s = ln.strip()
            m = re.match(r"^let (?:mut )?(_\d+): (.*);$", s)
            if m:
                self.types[m.group(1)] = m.group(2)
                continue
            m = re.match(r"^debug (\w+) => (.*);$", s)
            if m:
                self.debug.setdefault(m.group(1), []).append(m.group(2))
                continue
            m = re.match(r"^(bb\d+)(?: \(cleanup\))?: \{$", s)
            if m:
                cur = []
                self.blocks[m.group(1)] = cur
                continue
            if s == "}":
                cur = None if cur is not None and ln.startswith("    }") else cur
                continue
            if cur is not None and s:
                cur.append(s)


# ---- symbolic values --------------------------------------------------------------------
# ("bv", width, smt_term) | ("tuple", [vals]) | ("opaque", description, root) | ("len", smt_term)

def bv(w, t):
    return ("bv", w, t)


def const_of(text):
    m = re.match(r"^const (\d+)_(\w+)$", text)
    if m and m.group(2) in W:
        w = W[m.group(2)]
        return bv(w, f"(_ bv{int(m.group(1)) % (1 << w)} {w})")
    if text == "const true":
        return bv(1, "#b1")
    if text == "const false":
        return bv(1, "#b0")
    return None


class Exec:
    """Symbolic execution of the straight-line prefix of one MIR function."""

    def __init__(self, fn, consts, self_fields=None, self_len=None):
        self.fn = fn
        self.env = {}
        self.syms = {}       # free symbols: name -> width
        self.obls = []       # (smt_bool_term, message, blockname)
        self.consts = consts
        self.self_fields = self_fields or {}
        self.self_len = self_len or {}
        self.aggregate = None
        self.trace = []
        self.helpers = {}
        self.depth = 0
        self.self_locals = {"_1"} if self_fields else set()
        self.returns = []

    def sym(self, name, w):
        n = "s_" + re.sub(r"[^A-Za-z0-9]+", "_", name).strip("_")
        self.syms[n] = w
        return bv(w, n)

    def ty_width(self, ty):
        return W.get(ty.strip())

    def place(self, text):
        """Value of a place expression."""
        text = text.strip()
        if re.match(r"^_\d+$", text):
            if text in self.env:
                return self.env[text]
            ty = self.fn.types.get(text, "")
            w = self.ty_width(ty)
            if w:
                v = self.sym("arg" + text, w)
                self.env[text] = v
                return v
            return ("opaque", text, text)
        # ((*_1).K: T)  -- field of self
        m = re.match(r"^\(\(\*(_\d+)\)\.(\d+): (.*)\)$", text)
        if m:
            k = int(m.group(2))
            w = self.ty_width(m.group(3))
            if m.group(1) in self.self_locals and w and k in self.self_fields:
                return self.self_fields[k]
            if m.group(1) in self.self_locals and not w:
                return ("opaque", f"self.{k}", ("self", k))
            base = self.place("(*" + m.group(1) + ")")
            return self.project(base, k, m.group(3), text)
        m = re.match(r"^\(\*(_\d+)\)$", text)
        if m:
            return self.place(m.group(1))
        # (X.K: T)
        m = re.match(r"^\((.+)\.(\d+): ([^()]*(?:\([^()]*\))?[^()]*|.*)\)$", text)
        if m:
            base = self.place(m.group(1))
            return self.project(base, int(m.group(2)), m.group(3), text)
        raise Unsupported("place: " + text)

    def project(self, base, k, ty, text):
        if base[0] == "tuple":
            return base[1][k]
        if base[0] == "opaque":
            w = self.ty_width(ty)
            path = f"{base[1]}.{k}"
            if w:
                key = ("proj", path)
                if key not in self.env:
                    self.env[key] = self.sym(path, w)
                return self.env[key]
            return ("opaque", path, base[2])
        raise Unsupported("projection of " + str(base[0]) + ": " + text)

    def operand(self, text):
        text = text.strip()
        c = const_of(text)
        if c:
            return c
        m = re.match(r"^const (.+)$", text)
        if m:
            name = m.group(1).strip().split("::")[-1]
            if name in self.consts:
                return self.consts[name]
            raise Unsupported("constant: " + name)
        m = re.match(r"^(?:no_retag )?(?:copy|move) (.+)$", text)
        if m:
            return self.place(m.group(1))
        raise Unsupported("operand: " + text)

    BIN = {"Add": "bvadd", "Sub": "bvsub", "Mul": "bvmul", "Rem": "bvurem", "Div": "bvudiv",
           "BitAnd": "bvand", "BitOr": "bvor", "BitXor": "bvxor"}
    CMP = {"Eq": "=", "Lt": "bvult", "Le": "bvule", "Gt": "bvugt", "Ge": "bvuge"}

    def rvalue(self, lhs, text):
        text = text.strip()
        m = re.match(r"^(\w+)\((.+), (.+)\)$", text)
        if m and (m.group(1) in self.BIN or m.group(1) in self.CMP or m.group(1) in
                  ("Ne", "AddWithOverflow", "SubWithOverflow", "MulWithOverflow", "Shl", "Shr")):
            op = m.group(1)
            a, b = self.operand(m.group(2)), self.operand(m.group(3))
            if a[0] != "bv" or b[0] != "bv":
                raise Unsupported("binary op on non-integers: " + text)
            w = a[1]
            if op in self.BIN:
                if b[1] != w:
                    raise Unsupported("width mismatch: " + text)
                return bv(w, f"({self.BIN[op]} {a[2]} {b[2]})")
            if op in self.CMP:
                return bv(1, f"(ite ({self.CMP[op]} {a[2]} {b[2]}) #b1 #b0)")
            if op == "Ne":
                return bv(1, f"(ite (= {a[2]} {b[2]}) #b0 #b1)")
            if op in ("Shl", "Shr"):
                bb = b[2] if b[1] == w else (f"((_ zero_extend {w - b[1]}) {b[2]})" if b[1] < w else f"((_ extract {w-1} 0) {b[2]})")
                return bv(w, f"({'bvshl' if op == 'Shl' else 'bvlshr'} {a[2]} {bb})")
            if op == "AddWithOverflow":
                s = f"(bvadd {a[2]} {b[2]})"
                return ("tuple", [bv(w, s), bv(1, f"(ite (bvult {s} {a[2]}) #b1 #b0)")])
            if op == "SubWithOverflow":
                return ("tuple", [bv(w, f"(bvsub {a[2]} {b[2]})"), bv(1, f"(ite (bvult {a[2]} {b[2]}) #b1 #b0)")])
            if op == "MulWithOverflow":
                wide = f"(bvmul ((_ zero_extend {w}) {a[2]}) ((_ zero_extend {w}) {b[2]}))"
                return ("tuple", [bv(w, f"((_ extract {w-1} 0) {wide})"),
                                  bv(1, f"(ite (= ((_ extract {2*w-1} {w}) {wide}) (_ bv0 {w})) #b0 #b1)")])
        m = re.match(r"^Not\((.+)\)$", text)
        if m:
            a = self.operand(m.group(1))
            return bv(a[1], f"(bvnot {a[2]})")
        m = re.match(r"^(.+) as (\w+) \(IntToInt\)$", text)
        if m:
            a = self.operand(m.group(1))
            w = W.get(m.group(2))
            if a[0] != "bv" or not w:
                raise Unsupported("cast: " + text)
            if w == a[1]:
                return a
            if w > a[1]:
                return bv(w, f"((_ zero_extend {w - a[1]}) {a[2]})")   # unsigned sources only
            return bv(w, f"((_ extract {w-1} 0) {a[2]})")
        m = re.match(r"^(.+) as .* \((Transmute|PtrToPtr|PointerCoercion.*)\)$", text)
        if m:
            return self.operand(m.group(1))
        m = re.match(r"^PtrMetadata\((.+)\)$", text)
        if m:
            a = self.operand(m.group(1))
            if a[0] == "opaque" and isinstance(a[2], tuple) and a[2][0] == "self" and a[2][1] in self.self_len:
                return self.self_len[a[2][1]]
            raise Unsupported("length of " + str(a))
        m = re.match(r"^(\w[\w:]*) \{ (.*) \}$", text)
        if m:
            fields = []
            for part in re.split(r", (?=\w+: )", m.group(2)):
                fm = re.match(r"^(\w+): (.+)$", part)
                try:
                    v = self.operand(fm.group(2))
                except Unsupported:
                    v = ("opaque", part, None)
                fields.append((fm.group(1), v))
            self.aggregate = (m.group(1), fields)
            return ("opaque", "aggregate", None)
        m = re.match(r"^&(?:mut )?\(\*(_\d+)\)$", text)
        if m and m.group(1) in self.self_locals:
            return ("selfref",)
        m = re.match(r"^&(?:mut )?(.+)$", text)
        if m:
            return ("opaque", text, None)
        m = re.match(r"^discriminant\(", text)
        if m:
            return ("opaque", text, None)
        try:
            return self.operand(text)
        except Unsupported:
            return ("opaque", text, None)

    def exec_block(self, bb):
        """Execute the statements of one block; return its terminator as a tuple."""
        stmts = self.fn.blocks.get(bb)
        if stmts is None:
            raise Unsupported("no block " + bb)
        for s in stmts:
            self.trace.append(f"{bb}: {s}")
            m = re.match(r"^assert\((!?)(?:move |copy )?(.+?), \"(.*?)\".*-> \[success: (bb\d+)", s)
            if m:
                c = self.operand("copy " + m.group(2)) if re.match(r"^[_(]", m.group(2)) else self.operand(m.group(2))
                if c[0] != "bv" or c[1] != 1:
                    raise Unsupported("assert on non-bool: " + s)
                want = "#b0" if m.group(1) == "!" else "#b1"
                return ("assert", f"(= {c[2]} {want})", m.group(3), m.group(4))
            m = re.match(r"^goto -> (bb\d+);$", s)
            if m:
                return ("goto", m.group(1))
            cm = re.match(r"^(_\d+) = (.*\)) -> \[return: (bb\d+)", s)
            if cm:
                rhs = cm.group(2)
                depth = 0
                cut = None
                for i in range(len(rhs) - 1, -1, -1):
                    if rhs[i] == ")":
                        depth += 1
                    elif rhs[i] == "(":
                        depth -= 1
                        if depth == 0:
                            cut = i
                            break
                if cut is not None:
                    callee = rhs[:cut]
                    if not re.match(r"^(Add|Sub|Mul)WithOverflow$|^(Eq|Ne|Lt|Le|Gt|Ge|Rem|Div|Add|Sub|Mul|Not|PtrMetadata|BitAnd|BitOr|BitXor|Shl|Shr)$", callee):
                        args = [x for x in re.split(r", (?=(?:copy|move|const) )", rhs[cut + 1:-1]) if x]
                        vals = []
                        for x in args:
                            try:
                                vals.append(self.operand(x))
                            except Unsupported:
                                vals.append(("opaque", x, None))
                        return ("call", cm.group(1), callee, vals, cm.group(3))
            m = re.match(r"^switchInt\((?:move |copy )?(.+?)\) -> \[(.*)\];$", s)
            if m:
                try:
                    v = self.operand("copy " + m.group(1))
                except Unsupported:
                    return ("stop", "switchInt")
                targets = []
                other = None
                for part in m.group(2).split(", "):
                    k, t = part.split(": ")
                    if k == "otherwise":
                        other = t
                    else:
                        targets.append((int(k), t))
                return ("switch", v, targets, other)
            if s.startswith("return"):
                return ("return",)
            if s.startswith(("switchInt", "drop(", "unreachable", "resume")):
                return ("stop", s.split("(")[0])
            m = re.match(r"^(_\d+) = (.*);$", s)
            if m:
                self.env[m.group(1)] = self.rvalue(m.group(1), m.group(2))
                continue
            if re.match(r"^(StorageLive|StorageDead|nop|FakeRead|PlaceMention|Retag|AscribeUserType)", s):
                continue
            if re.match(r"^\((.+)\) = ", s) or re.match(r"^\(\*_", s):
                # store through a place: only tolerated when it is not an integer field of self
                if re.match(r"^\(\(\*_\d+\)\.\d+: (usize|u8|u16|u32|u64)\) = ", s):
                    raise Unsupported("store to an integer field: " + s)
                continue
            raise Unsupported("statement: " + s)
        return ("stop", "end-of-block")

    def inline_call(self, callee, vals, conds):
        """Inline a call to another function of the dump (a helper of the same type): explore every
        path of its loop-free body, return the merged value; its asserts become obligations under
        their path conditions.  None when the callee is not in the dump."""
        name = callee.split("::")[-1]
        name = re.sub(r"<.*$", "", name)
        cands = [f for f in self.helpers.get(name, [])]
        if len(cands) != 1 or self.depth >= 3:
            return None
        fn = cands[0]
        sub = Exec(fn, self.consts, self.self_fields, self.self_len)
        sub.helpers = self.helpers
        sub.depth = self.depth + 1
        sub.self_locals = set()
        params = re.findall(r"(_\d+): ", fn.sig.split("(", 1)[1].rsplit(")", 1)[0])
        if len(params) != len(vals):
            return None
        for pname, v in zip(params, vals):
            if v[0] == "selfref":
                sub.self_locals.add(pname)
            sub.env[pname] = v
        sub.syms = self.syms
        sub.returns = []
        sub.explore("bb0", list(conds), set())
        self.obls.extend(sub.obls)
        if not sub.returns:
            raise Unsupported("helper " + name + " has no returning path")
        val = None
        for pc, v in reversed(sub.returns):
            if v[0] != "bv":
                raise Unsupported("helper " + name + " returns a non-integer")
            if val is None:
                val = v
            else:
                c = "(and " + " ".join(pc) + ")" if len(pc) > 1 else (pc[0] if pc else "true")
                val = bv(v[1], f"(ite {c} {v[2]} {val[2]})")
        return val

    def explore(self, bb, conds, seen):
        """All paths of a loop-free function body (callee mode)."""
        if bb in seen:
            raise Unsupported("loop in helper at " + bb)
        seen = seen | {bb}
        t = self.exec_block(bb)
        if t[0] == "goto":
            return self.explore(t[1], conds, seen)
        if t[0] == "assert":
            pc = "(and " + " ".join(conds) + ")" if len(conds) > 1 else (conds[0] if conds else "true")
            self.obls.append((f"(=> {pc} {t[1]})", t[2], bb))
            return self.explore(t[3], conds + [t[1]], seen)
        if t[0] == "call":
            v = self.inline_call(t[2], t[3], conds)
            self.env[t[1]] = v if v is not None else ("call", t[2], t[3])
            return self.explore(t[4], conds, seen)
        if t[0] == "switch":
            v, targets, other = t[1], t[2], t[3]
            if v[0] != "bv":
                raise Unsupported("switch on a non-integer in a helper")
            snapshot = dict(self.env)
            eqs = []
            for k, tb in targets:
                c = f"(= {v[2]} (_ bv{k} {v[1]}))"
                eqs.append(c)
                self.env = dict(snapshot)
                self.explore(tb, conds + [c], seen)
            if other:
                self.env = dict(snapshot)
                self.explore(other, conds + [f"(not {c})" for c in eqs], seen)
            return
        if t[0] == "return":
            self.returns.append((list(conds), self.env.get("_0", ("opaque", "_0", None))))
            return
        raise Unsupported("helper stops at " + str(t[1]))

    def run(self, max_blocks=40):
        """Straight-line prefix of a top-level function (calls to helpers are inlined)."""
        bb = "bb0"
        for _ in range(max_blocks):
            t = self.exec_block(bb)
            if t[0] == "goto":
                bb = t[1]
            elif t[0] == "assert":
                self.obls.append((t[1], t[2], bb))
                bb = t[3]
            elif t[0] == "call":
                v = self.inline_call(t[2], t[3], [o[0] for o in self.obls if not o[0].startswith("(=>")])
                self.env[t[1]] = v if v is not None else ("call", t[2], t[3])
                bb = t[4]
            else:
                return "stopped:" + str(t[1] if len(t) > 1 and isinstance(t[1], str) else t[0])
        return "stopped:max-blocks"


def call_len(v):
    """Length model: from_elem(x, n) and into_boxed_slice(v)."""
    if v[0] == "call" and "from_elem" in v[1] and len(v[2]) == 2 and v[2][1][0] == "bv":
        return v[2][1]
    if v[0] == "call" and "into_boxed_slice" in v[1] and len(v[2]) == 1:
        return call_len(v[2][0])
    return None


# ---- solver ------------------------------------------------------------------------------

def solve(script, solver):
    cmd = {"z3": ["/usr/bin/z3", "-in", "-T:120"], "cvc5": ["cvc5", "--lang", "smt2", "--produce-models", "--tlimit=120000"]}[solver]
    t0 = time.time()
    p = subprocess.run(cmd, input=script, stdout=subprocess.PIPE, stderr=subprocess.STDOUT, text=True)
    out = p.stdout
    dt = time.time() - t0
    first = out.strip().split("\n")[0].strip() if out.strip() else "unknown"
    # an error before the verdict (a dropped assertion) makes the answer inconclusive; the
    # "model is not available" error after an unsat verdict is the expected reply to get-value
    errs = [l for l in out.split("\n") if "(error" in l and "model is not available" not in l and "cannot get value" not in l.lower()]
    if errs or first not in ("sat", "unsat", "unknown", "timeout"):
        return "error", {}, dt, out
    model = {}
    if first == "sat":
        for m in re.finditer(r"\(\s*\(?(\w+)\s+(#x[0-9a-fA-F]+|#b[01]+|\(_ bv(\d+) \d+\))\s*\)", out):
            v = m.group(2)
            model[m.group(1)] = int(v[2:], 16) if v.startswith("#x") else (int(v[2:], 2) if v.startswith("#b") else int(m.group(3)))
    return first, model, dt, out


def query(decls, assumes, goal_negated, getvals):
    s = ["(set-logic ALL)", "(set-option :produce-models true)"]
    for n, w in decls.items():
        s.append(f"(declare-const {n} (_ BitVec {w}))")
    for a in assumes:
        s.append(f"(assert {a})")
    s.append(f"(assert {goal_negated})")
    s.append("(check-sat)")
    if getvals:
        s.append("(get-value (" + " ".join(getvals) + "))")
    return "\n".join(s) + "\n"


def main():
    import argparse
    ap = argparse.ArgumentParser()
    ap.add_argument("what", choices=["slotidx"])
    ap.add_argument("--replay-json", required=True)
    ap.add_argument("--workdir", required=True)
    ap.add_argument("--mir")
    a = ap.parse_args()
    os.makedirs(a.workdir, exist_ok=True)
    checks = []   # (id, status, desc, loc)
    replays = []
    t0 = time.time()
    solver_s = 0.0
    nq = 0
    try:
        mir = open(a.mir).read() if a.mir else dump_mir(a.workdir)
        fns = split_functions(mir)
        impl = r"gse_decap_memory::<impl at [^>]*>::"
        memfns = {}
        for name in ("new", "new_frag", "take_frag", "save_frag"):
            c = [x for x in find_fn(fns, impl, name) if "SimpleGseMemory" in x[0]]
            if len(c) != 1:
                raise Unsupported(f"{len(c)} candidates for SimpleGseMemory::{name} in the MIR dump")
            memfns[name] = Fn(*c[0])
        # associated constants used by `new` (MIN_MARGIN): evaluate their own MIR bodies
        consts = {}
        dup = set()
        for m in re.finditer(r"^const (\S.*?)::(\w+): (\w+) = (const \d+_\w+);$", mir, re.M):
            v = const_of(m.group(4))
            if m.group(2) in consts and consts[m.group(2)] != v:
                dup.add(m.group(2))
            consts[m.group(2)] = v
        for k in dup:
            del consts[k]
        # helpers: every other function of the memory module in the dump may be inlined
        helpers = {}
        for sig, body in fns.items():
            hm = re.match(r"^fn (gse_decap::)?gse_decap_memory::.*?::(\w+)\(", sig)
            if hm and hm.group(2) not in ("new", "new_frag", "take_frag", "save_frag"):
                helpers.setdefault(hm.group(2), []).append(Fn(sig, body))
        # ---- new ----
        e = Exec(memfns["new"], consts)
        e.helpers = helpers
        e.env["_1"] = bv(64, "N")
        e.syms["N"] = 64
        why = e.run()
        if e.aggregate is None:
            raise Unsupported("constructor aggregate not reached (" + why + ")")
        new_obls = list(e.obls)
        new_syms = dict(e.syms)
        fields = e.aggregate[1]
        self_fields = {}
        self_len = {}
        for k, (fname, v) in enumerate(fields):
            if v[0] == "bv":
                self_fields[k] = v
            else:
                # follow the local to a call value
                pass
        # frags: find the field whose operand local holds an into_boxed_slice/from_elem call
        for k, (fname, v) in enumerate(fields):
            pm = re.search(r"(?:copy|move) (_\d+)", v[1]) if v[0] == "opaque" and isinstance(v[1], str) else None
            val = v
            if v[0] == "call":
                val = v
            ln = call_len(val)
            if ln is not None:
                self_len[k] = ln
        if not self_len:
            raise Unsupported("no slice field with a modelled length in the constructor")
        # no other function of the impl stores to an integer field of self
        for sig, body in fns.items():
            if "SimpleGseMemory" in sig and re.search(impl, sig):
                for ln in body:
                    if re.match(r"^\s*\(\(\*_1\)\.\d+: (usize|u8|u16|u32|u64)\) = ", ln):
                        raise Unsupported("an integer field of the memory is assigned after construction: " + ln.strip())
        # ---- the three operations ----
        idx = {}
        obls = {}
        syms = dict(new_syms)
        idsym = {}
        for name in ("new_frag", "take_frag", "save_frag"):
            f = memfns[name]
            ex = Exec(f, consts, self_fields, self_len)
            ex.helpers = helpers
            why = ex.run()
            loc = (f.debug.get("idx") or [None])[0]
            if not loc or loc not in ex.env or ex.env[loc][0] != "bv":
                raise Unsupported(f"{name}: local `idx` not computed on the straight-line prefix ({why})")
            idx[name] = ex.env[loc]
            obls[name] = ex.obls
            u8s = [n for n, w in ex.syms.items() if w == 8 and re.search(r"\b" + n + r"\b", ex.env[loc][2])]
            if len(u8s) != 1:
                raise Unsupported(f"{name}: index depends on {len(u8s)} u8 inputs, expected the fragment id only")
            other = [n for n in ex.syms if n != u8s[0] and re.search(r"\b" + n + r"\b", ex.env[loc][2])]
            if other:
                raise Unsupported(f"{name}: index depends on unexpected inputs {other}")
            idsym[name] = u8s[0]
            # the index must be the one used for the slot access: a bounds assert mentions it
            if not any(idx[name][2] in o[0] for o in ex.obls):
                raise Unsupported(f"{name}: no bounds check on `idx` found before the slot access")
        base = [f"(bvuge N (_ bv1 64))", f"(bvule N (_ bv{N_MAX} 64))"]
        base += [o[0] for o in new_obls]   # `new` itself did not panic

        def rename(term, frm, to):
            return re.sub(r"\b" + frm + r"\b", to, term)

        srcfile = "/repo/src/gse_decap/gse_decap_memory/mod.rs"

        def decide(cid, desc, fnname, decls, assumes, neg, getvals, mk_replay):
            nonlocal solver_s, nq
            script = query(decls, assumes, neg, getvals)
            r1, m1, d1, o1 = solve(script, "z3")
            r2, m2, d2, o2 = solve(script, "cvc5")
            solver_s += d1 + d2
            nq += 2
            loc = f"{srcfile}:1:1 in function dvb_gse_rust::gse_decap::gse_decap_memory::SimpleGseMemory::{fnname}"
            if r1 == "unsat" and r2 == "unsat":
                checks.append((cid, "SUCCESS", desc, loc))
            elif r1 == "sat" or r2 == "sat":
                model = m1 if r1 == "sat" else m2
                checks.append((cid, "FAILURE", desc, loc))
                replays.append(mk_replay(model, desc, cid))
            else:
                checks.append((cid, "UNDETERMINED", desc + f" [z3={r1} cvc5={r2}]", loc))

        def replay_of(nv, av, bv_):
            def f(model, desc, cid):
                n = model.get("N", 256)
                x = model.get(av, 0) if av else 0
                y = model.get(bv_, None) if bv_ else None
                if y is None or y == x:
                    y = (x + 1) % 256
                tname = "smt_replay_" + re.sub(r"\W+", "_", cid)
                code = (f"/// Check for `{cid}`: \"{desc}\"\n#[test]\nfn {tname}() {{\n"
                        f"    // solver assignment: slots = {n}, ids = {x}, {y}\n"
                        f"    crate::c17::slot_replay({n}, {x}, {y});\n}}\n")
                return {"desc": desc, "name": tname, "code": code}
            return f

        # no_panic
        for name in ("new_frag", "take_frag", "save_frag"):
            d = dict(new_syms)
            d[idsym[name]] = 8
            for i, (cond, msg, bb) in enumerate(obls[name]):
                earlier = [o[0] for o in obls[name][:i]]
                decide(f"slotidx.{name}.assertion.{i+1}", f"C17.slot_index_no_panic: {name}: {msg[:60]}", name,
                       d, base + earlier, f"(not {cond})", ["N", idsym[name]], replay_of("N", idsym[name], None))
        # consistent
        for name in ("take_frag", "save_frag"):
            d = dict(new_syms)
            d["fid"] = 8
            t1 = rename(idx["new_frag"][2], idsym["new_frag"], "fid")
            t2 = rename(idx[name][2], idsym[name], "fid")
            pre = [rename(o[0], idsym["new_frag"], "fid") for o in obls["new_frag"]] + [rename(o[0], idsym[name], "fid") for o in obls[name]]
            decide(f"slotidx.{name}.assertion.c", f"C17.slot_index_consistent: new_frag and {name} use the same slot for an id", name,
                   d, base + pre, f"(not (= {t1} {t2}))", ["N", "fid"], replay_of("N", "fid", None))
        # injective with >= 256 slots
        d = dict(new_syms)
        d["fa"] = 8
        d["fb"] = 8
        ta = rename(idx["new_frag"][2], idsym["new_frag"], "fa")
        tb = rename(idx["new_frag"][2], idsym["new_frag"], "fb")
        pre = [rename(o[0], idsym["new_frag"], "fa") for o in obls["new_frag"]] + [rename(o[0], idsym["new_frag"], "fb") for o in obls["new_frag"]]
        decide("slotidx.new_frag.assertion.i", "C17.slot_index_injective_below_slot_count: two different ids below the slot count never share a slot (documented rule: frag_id % max_frag_id)", "new_frag",
               d, base + pre + ["(bvult ((_ zero_extend 56) fa) N)", "(bvult ((_ zero_extend 56) fb) N)", "(not (= fa fb))"], f"(= {ta} {tb})", ["N", "fa", "fb"], replay_of("N", "fa", "fb"))
        # vacuity witness: the assumptions are satisfiable with a large memory
        script = query(dict(new_syms), base + ["(bvuge N (_ bv256 64))"], "true", ["N"])
        r, m, dt, o = solve(script, "z3")
        solver_s += dt
        nq += 1
        checks.append(("slotidx.cover.1", "SATISFIED" if r == "sat" else "UNSATISFIABLE", "large_memory_reachable",
                       f"{srcfile}:1:1 in function dvb_gse_rust::gse_decap::gse_decap_memory::SimpleGseMemory::new"))
        # negative control: with zero slots the real code panics on the remainder (the crate's
        # own tests never call these operations on such a memory); the encoding must show it
        d = dict(new_syms)
        d[idsym["take_frag"]] = 8
        script = query(d, ["(= N (_ bv0 64))"] + [o[0] for o in new_obls], "(not (and " + " ".join(o[0] for o in obls['take_frag']) + "))", ["N"])
        r, m, dt, o = solve(script, "z3")
        solver_s += dt
        nq += 1
        checks.append(("slotidx.cover.2", "SATISFIED" if r == "sat" else "UNSATISFIABLE", "zero_slots_remainder_panic_visible_to_the_encoding",
                       f"{srcfile}:1:1 in function dvb_gse_rust::gse_decap::gse_decap_memory::SimpleGseMemory::take_frag"))
        verdict = "SUCCESSFUL" if all(c[1] in ("SUCCESS", "SATISFIED") for c in checks) else "FAILED"
        err = None
    except Unsupported as ex:
        verdict = None
        err = str(ex)
    print(f"MIR->SMT slot index encoder; queries={nq}")
    for i, (cid, st, desc, loc) in enumerate(checks, 1):
        print(f"Check {i}: {cid}\n\t - Status: {st}\n\t - Description: \"{desc}\"\n\t - Location: {loc}\n")
    if err:
        print("error: encoding failed: " + err)
    else:
        print(f"VERIFICATION:- {verdict}")
    print(f"Verification Time: {solver_s:.3f}s")
    with open(a.replay_json, "w") as f:
        json.dump(replays, f)
    return 0 if verdict == "SUCCESSFUL" else 1


if __name__ == "__main__":
    sys.exit(main())

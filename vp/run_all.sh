#!/bin/sh
# run every check of the manifest once (quick tier by default); prints the summary lines
tier=${1:-quick}
cd /verif
for p in C01 C02 C03 C04 C05 C06 C07 C08 C09 C10 C11 C12 C13 C14 C15 C16 C17 C18 C19 C20; do
  ./check $p --tier $tier 2>/dev/null | grep -E "VIOLATION|UNDECIDED|KNOWN-FINDING|NOT-REPRODUCED|\] $tier"
done
echo ALLDONE

#!/usr/bin/env python3
"""Run checks against a MODIFIED copy of /repo, fully isolated from /repo and /verif.

  selftest.py --revert <commit> C05 C09 ...     reverse-apply a fix commit of /repo
  selftest.py --patch <file.diff> C05 ...       apply a seeded change

Creates a scratch git worktree of /repo's HEAD and a scratch copy of /verif whose harness
crate points at that worktree, runs ./check <id> --tier quick there, prints one line per
property (exit code + VIOLATION / UNDECIDED lines), removes everything afterwards."""
import argparse, os, re, shutil, subprocess, sys, tempfile, time

ap = argparse.ArgumentParser()
ap.add_argument("--revert")
ap.add_argument("--patch")
ap.add_argument("--tier", default="quick")
ap.add_argument("--keep", action="store_true")
ap.add_argument("props", nargs="+")
a = ap.parse_args()
root = os.path.dirname(os.path.dirname(os.path.abspath(__file__)))
scratch = tempfile.mkdtemp(prefix="vpst_", dir="/tmp")
repo = os.path.join(scratch, "repo")
verif = os.path.join(scratch, "verif")
rc_all = 0
try:
    subprocess.run(["git", "-C", "/repo", "worktree", "add", "--detach", repo, "HEAD"], check=True, stdout=subprocess.DEVNULL, stderr=subprocess.DEVNULL)
    if a.revert:
        r = subprocess.run(["git", "-C", repo, "revert", "--no-commit", a.revert], stdout=subprocess.PIPE, stderr=subprocess.STDOUT)
        if r.returncode != 0:
            print(f"SELFTEST {a.revert}: cannot revert cleanly (later commits touch the same lines)")
            raise SystemExit(0)
    if a.patch:
        subprocess.run(["git", "-C", repo, "apply", os.path.abspath(a.patch)], check=True)
    subprocess.run(["rsync", "-a", "--exclude", "build", "--exclude", "logs", "--exclude", ".git", "--exclude", "replays",
                    "--exclude", "harness/target", root + "/", verif + "/"], check=True)
    ct = os.path.join(verif, "harness", "Cargo.toml")
    s = open(ct).read().replace('path = "/repo"', f'path = "{repo}"')
    open(ct, "w").write(s)
    for p in a.props:
        t0 = time.time()
        r = subprocess.run([os.path.join(verif, "check"), p, "--tier", a.tier, "--no-evidence"], cwd=verif,
                           stdout=subprocess.PIPE, stderr=subprocess.PIPE, text=True)
        lines = [l for l in r.stdout.splitlines() if l.startswith(("VIOLATION", "UNDECIDED", "NOT-REPRODUCED", "KNOWN-FINDING"))]
        print(f"SELFTEST {a.revert or a.patch} {p}: exit={r.returncode} {time.time()-t0:.0f}s", flush=True)
        for l in lines[:12]:
            print("    " + l.replace(verif, "<scratch>"), flush=True)
        if r.returncode == 3 and time.time() - t0 < 30:
            print("    stderr tail: " + " | ".join(r.stderr.strip().splitlines()[-6:]))
        rc_all = max(rc_all, r.returncode)
finally:
    if not a.keep:
        subprocess.run(["git", "-C", "/repo", "worktree", "remove", "--force", repo], stdout=subprocess.DEVNULL, stderr=subprocess.DEVNULL)
        shutil.rmtree(scratch, ignore_errors=True)
        subprocess.run(["git", "-C", "/repo", "worktree", "prune"])
sys.exit(0)

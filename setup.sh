#!/bin/sh
# Pre-builds the harness crate once (warms the cargo/Kani cache). Checks do not depend on it.
set -e
cd "$(dirname "$0")/harness"
export CARGO_NET_OFFLINE=true
cargo kani --only-codegen -Z stubbing --features c14,twins --target-dir ../build/C14 >/dev/null 2>&1 || {
  echo "setup: kani pre-build failed (checks will rebuild)"; exit 0; }
echo "setup ok"
